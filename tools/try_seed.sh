#!/bin/bash
# try_seed.sh <patch.diff> <PROP> [tier] [extra check args]
# Applies the patch to a scratch worktree of /repo HEAD (never to /repo itself), runs the check against it with
# evidence/replays redirected to a scratch directory, prints the verdict, removes the worktree.
patch="$1"; prop="$2"; tier="${3:-quick}"; shift 3 2>/dev/null
id="try-$$-$RANDOM"; wt="/tmp/wt/$id"; out="/tmp/wt/$id-out"
git -C /repo worktree add --detach "$wt" HEAD >/dev/null 2>&1 || { echo "worktree failed"; exit 2; }
cd "$wt" || exit 2
if git apply --check "$patch" 2>/dev/null; then git apply "$patch"; elif ! git apply -3 "$patch" >/dev/null 2>&1; then echo "PATCH DOES NOT APPLY"; cd /; git -C /repo worktree remove --force "$wt"; exit 3; fi
mkdir -p "$out"
cd /verif && VERIF_REPO="$wt" VERIF_OUT="$out" ./check "$prop" --tier "$tier" "$@" > "$out/log.txt" 2>&1; rc=$?
grep -E "^VIOLATION|^KNOWN|^HARNESS|^\[|^  class" "$out/log.txt" | cut -c1-300 | head -12
echo "exit=$rc"
cd /; git -C /repo worktree remove --force "$wt" >/dev/null 2>&1; rm -rf "$wt" "$out"
