#!/bin/bash
# try_seed.sh <patch.diff> <PROP> [tier] [extra check args]  -- apply to /repo working tree, run the check, revert.
patch="$1"; prop="$2"; tier="${3:-quick}"; shift 3 2>/dev/null
cd /repo || exit 2
if ! git diff --quiet; then echo "repo working tree not clean"; exit 2; fi
if git apply --check "$patch" 2>/dev/null; then git apply "$patch"; else git apply -3 "$patch" >/dev/null 2>&1 || { echo "PATCH DOES NOT APPLY"; git checkout -- .; exit 3; }; git reset -q; fi
cd /verif && ./check "$prop" --tier "$tier" "$@" > /tmp/try_seed_out.txt 2>&1; rc=$?
cd /repo && git checkout -- . && git status --short | grep -v '^??' 
grep -E "^VIOLATION|^KNOWN|^HARNESS|^\[" /tmp/try_seed_out.txt | cut -c1-260 | head -8
echo "exit=$rc"
