#!/bin/bash
# Like confirm_queue.sh for sixth-wave seeds (/tmp/wt/s-Cnn-out/{a,b} -> Cnn{a,b}6); waits for the lock instead of giving up.
exec 9>/tmp/wt/.confirm6.lock
flock 9
while :; do
  todo=""
  for d in /tmp/wt/s-*-out/a /tmp/wt/s-*-out/b; do
    [ -f "$d/patch.diff" ] && [ -f "$d/demo.py" ] && [ -f "$d/meta.json" ] && [ ! -f "$d/confirm.json" ] || continue
    recent=$(find "$d/patch.diff" "$d/demo.py" "$d/meta.json" -mmin -${IDLE_MIN:-12} | wc -l)
    [ "$recent" -eq 0 ] && { todo="$d"; break; }
  done
  [ -z "$todo" ] && break
  base=$(basename "$(dirname "$todo")")
  prop=$(echo "$base" | sed 's/^s-//; s/-out$//')
  /verif/tools/confirm_seed.sh "$todo" "$prop$(basename "$todo")6" "${1:-6}"
done
echo "queue6 empty"
