#!/bin/bash
# Copies every confirmed sub-agent seed (/tmp/wt/{m,n}-Cnn-out/{a,b} with confirm.json "confirmed": true) into /verif/seeded/<id>/
for d in /tmp/wt/[mnpqrs]-*-out/a /tmp/wt/[mnpqrs]-*-out/b; do
  [ -f "$d/confirm.json" ] || continue
  ok=$(python3 -c "import json;print(json.load(open('$d/confirm.json')).get('confirmed'))")
  [ "$ok" = True ] || { echo "not confirmed: $d"; continue; }
  base=$(basename "$(dirname "$d")"); prop=$(echo "$base" | sed 's/^[mnpqrs]-//; s/-out$//'); wave=$(echo "$base" | cut -c1)
  id="$prop$(basename $d)"; [ "$wave" = n ] && id="${id}2"; [ "$wave" = p ] && id="${id}3"; [ "$wave" = q ] && id="${id}4"; [ "$wave" = r ] && id="${id}5"; [ "$wave" = s ] && id="${id}6"
  [ -d "/verif/seeded/$id" ] && continue
  mkdir -p "/verif/seeded/$id"; cp "$d/patch.diff" "$d/demo.py" "$d/meta.json" "$d/confirm.json" "/verif/seeded/$id/"; echo "imported $id"
done
