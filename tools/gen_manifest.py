#!/usr/bin/env python3
"""Regenerates MANIFEST.json from tools/manifest_src.json-like table below (kept in code so it stays consistent)."""
import json, sys
from pathlib import Path

V = Path(__file__).resolve().parent.parent
props = [json.loads(l) for l in (V / "properties.jsonl").read_text().splitlines() if l.strip()]
table = json.loads((V / "tools" / "checks_table.json").read_text())
checks, na = [], []
for p in props:
    pid = p["id"]
    t = table.get(pid)
    if not t or t.get("not_applicable"):
        na.append({"property_id": pid, "reason": (t or {}).get("reason", "no check built yet in this round; see DESIGN.md section 4 for the plan")})
        continue
    checks.append({
        "property_id": pid,
        "quick_cmd": f"./check {pid} --tier quick",
        "thorough_cmd": f"./check {pid} --tier thorough",
        "evidence_file": f"/verif/evidence/{pid}.json",
        "replay_cmd_template": f"./check {pid} --replay {{path}}",
        "engine": t["engine"],
        "level_claimed": {"category": "model_checking", "text": t["text"], "design_ref": t["design_ref"]},
        "level_note": t["note"],
        "technique": t["technique"],
    })
m = {
    "version": 1,
    "setup_cmd": "./tools/setup.sh",
    "hooks": {
        "guard": "GHEDESIGNER_VERIF",
        "enable": "no build step: /venv imports ghedesigner editable from /repo; ./check exports GHEDESIGNER_VERIF=1 (no source hook exists; every observation point is reached by rebinding module-level names from the harness)",
        "baseline_off_cmd": "cd /repo && /venv/bin/python -m pytest -ra -q -p no:cacheprovider --timeout=900 --continue-on-collection-errors",
        "source_commits": table.get("_hook_commits", []),
        "add_only": True,
    },
    "engines": table["_engines"],
    "checks": checks,
    "not_applicable": na,
    "notes": table.get("_notes", ""),
}
(V / "MANIFEST.json").write_text(json.dumps(m, indent=1) + "\n")
import jsonschema
jsonschema.validate(m, json.loads((V / "schemas" / "MANIFEST.schema.json").read_text()))
print("MANIFEST ok:", len(checks), "checks,", len(na), "not_applicable")
