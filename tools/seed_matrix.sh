#!/bin/bash
# Runs the quick check of each seeded change's property against a scratch worktree with the change applied; writes seeded/RESULTS.md
cd /verif
out=seeded/RESULTS.md
echo "# Seeded changes vs checks (quick tier, $(date -u +%F)) " > $out.tmp
echo "" >> $out.tmp
echo "| seed | property | verdict | first class reported |" >> $out.tmp
echo "|---|---|---|---|" >> $out.tmp
for d in seeded/*/; do
  id=$(basename $d); [ -f $d/patch.diff ] || continue
  prop=$(python3 -c "import json; print(json.load(open('$d/meta.json')).get('property','${id:0:3}'))" 2>/dev/null || echo ${id:0:3})
  res=$(./tools/try_seed.sh $PWD/$d/patch.diff $prop quick 2>&1)
  rc=$(echo "$res" | grep -o "exit=[0-9]*" | tail -1)
  cls=$(echo "$res" | grep "class=" | head -1 | sed 's/^ *//; s/|/\\|/g' | cut -c1-160)
  case "$rc" in exit=1) v="caught";; exit=0) v="MISSED";; *) v="harness ($rc)";; esac
  echo "| $id | $prop | $v | $cls |" >> $out.tmp
  echo "$id $prop $v"
done
mv $out.tmp $out
