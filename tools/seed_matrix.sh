#!/bin/bash
# seed_matrix.sh [ids...] : runs the quick check of each seeded change's property against a scratch worktree with the change applied
# (never /repo itself), stores seeded/<id>/result.json and regenerates seeded/RESULTS.md from all result.json files.
cd /verif
ids="$@"; [ -z "$ids" ] && ids=$(ls seeded | grep -E '^C[0-9]{2}[ab][23456]?$')
for id in $ids; do
  d=seeded/$id; [ -f $d/patch.diff ] || continue
  prop=$(python3 -c "import json; print(json.load(open('$d/meta.json')).get('property','${id:0:3}'))" 2>/dev/null || echo ${id:0:3})
  res=$(./tools/try_seed.sh $PWD/$d/patch.diff $prop quick 2>&1)
  rc=$(echo "$res" | grep -o "exit=[0-9]*" | tail -1)
  cls=$(echo "$res" | grep "class=" | head -1 | sed 's/^ *//' | cut -c1-200)
  case "$rc" in exit=1) v="caught";; exit=0) v="MISSED";; *) v="harness ($rc)";; esac
  if [ "$v" = MISSED ]; then
    # a seed whose demonstration lies outside what its own property states may name the property that does state it (meta.json: also_try)
    for other in $(python3 -c "import json; print(' '.join(json.load(open('$d/meta.json')).get('also_try', [])))" 2>/dev/null); do
      res2=$(./tools/try_seed.sh $PWD/$d/patch.diff $other quick 2>&1)
      if echo "$res2" | grep -q "exit=1"; then v="caught by $other (not by $prop: see meta.json)"; cls=$(echo "$res2" | grep "class=" | head -1 | sed 's/^ *//' | cut -c1-200); break; fi
    done
  fi
  python3 - "$d/result.json" "$id" "$prop" "$v" "$cls" "$(git rev-parse --short HEAD)" <<'PY'
import json,sys,datetime
p,id_,prop,v,cls,head=sys.argv[1:]
json.dump({"seed":id_,"property":prop,"verdict":v,"first_class":cls,"verif_commit":head,"repo_head":"scratch worktree of /repo HEAD + patch","tier":"quick","when":datetime.datetime.utcnow().isoformat()+"Z"},open(p,"w"),indent=1)
PY
  echo "$id $prop $v"
done
python3 - <<'PY'
import json,glob
rows=[json.load(open(f)) for f in sorted(glob.glob('/verif/seeded/*/result.json'))]
out=["# Seeded changes vs checks (quick tier of the seed's own property; scratch worktree with the patch applied)","",
     f"{sum(r['verdict'].startswith('caught') for r in rows)} of {len(rows)} caught (see the verdict column for the rest).","","| seed | property | verdict | first class reported | /verif commit |","|---|---|---|---|---|"]
import os
for r in rows:
    cls = r['first_class'].replace('|', '/')
    mp = '/verif/seeded/%s/meta.json' % r['seed']
    if r['verdict'] == 'MISSED' and os.path.exists(mp):
        m = json.load(open(mp))
        if m.get('note_on_scope') and not m.get('also_try'):
            r['verdict'] = 'not reported, by design (outside the stated property: note_on_scope in meta.json)' 
    out.append("| %s | %s | %s | %s | %s |" % (r['seed'], r['property'], r['verdict'], cls, r['verif_commit']))
open('/verif/seeded/RESULTS.md','w').write("\n".join(out)+"\n")
PY
