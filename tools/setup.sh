#!/bin/sh
# Offline setup: nothing to build (pure Python on /venv); verify imports and create output directories.
HERE="$(cd "$(dirname "$0")/.." && pwd)"
cd "$HERE" || exit 2
mkdir -p evidence replays
chmod +x check tools/*.sh 2>/dev/null
OMP_NUM_THREADS=1 PYTHONPATH="/repo:$HERE" /venv/bin/python - <<'PY'
import numpy, scipy, jsonschema, click, pygfunction, ghedesigner, vf.core
print("setup ok: ghedesigner from", ghedesigner.__file__)
PY
