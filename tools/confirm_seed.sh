#!/bin/bash
# confirm_seed.sh <dir-with-patch.diff+demo.py> <name> [ntest-procs]
# Confirms a seeded change in a scratch worktree of /repo HEAD: demo passes without it, fails with it, test suite passes with it.
# Writes <dir>/confirm.json. Removes the worktree afterwards.
d="$1"; name="$2"; np="${3:-8}"
wt="/tmp/wt/confirm-$name"
export OMP_NUM_THREADS=1 OPENBLAS_NUM_THREADS=1 MKL_NUM_THREADS=1
git -C /repo worktree remove --force "$wt" >/dev/null 2>&1; rm -rf "$wt"
git -C /repo worktree add --detach "$wt" HEAD >/dev/null 2>&1 || { echo "worktree failed"; exit 2; }
cd "$wt" || exit 2
head=$(git rev-parse --short HEAD)
timeout 900 /venv/bin/python "$d/demo.py" > "$d/confirm_demo_clean.log" 2>&1; rc_clean=$?
if git apply --check "$d/patch.diff" 2>/dev/null; then git apply "$d/patch.diff"; applied=clean
elif git apply -3 "$d/patch.diff" >/dev/null 2>&1; then applied=3way
else applied=failed; fi
rc_mut=-1; tests="not run"
if [ "$applied" != failed ]; then
  timeout 900 /venv/bin/python "$d/demo.py" > "$d/confirm_demo_mutant.log" 2>&1; rc_mut=$?
  timeout 3000 /venv/bin/python -m pytest -q -p no:cacheprovider -n "$np" --timeout=900 --deselect ghedesigner/tests/test_demo_files.py > "$d/confirm_tests.log" 2>&1
  tests=$(grep -E "passed|failed|error" "$d/confirm_tests.log" | tail -1)
fi
cd /; git -C /repo worktree remove --force "$wt" >/dev/null 2>&1; rm -rf "$wt"
python3 - "$d" "$name" "$head" "$rc_clean" "$rc_mut" "$applied" "$tests" <<'PY'
import json,sys
d,name,head,rc_clean,rc_mut,applied,tests=sys.argv[1:]
ok = rc_clean=="0" and rc_mut not in ("0","-1") and "passed" in tests and "failed" not in tests and "error" not in tests
json.dump({"name":name,"repo_head":head,"demo_exit_without_change":int(rc_clean),"demo_exit_with_change":int(rc_mut),"patch_applied":applied,"tests_with_change":tests,"confirmed":ok},open(d+"/confirm.json","w"),indent=1)
print(name,"confirmed" if ok else "NOT CONFIRMED",rc_clean,rc_mut,applied,tests)
PY
