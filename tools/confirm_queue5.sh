#!/bin/bash
# Like confirm_queue.sh for fifth-wave seeds (/tmp/wt/r-Cnn-out/{a,b} -> Cnn{a,b}5); waits for the lock instead of giving up.
exec 9>/tmp/wt/.confirm.lock
flock 9
while :; do
  todo=""
  for d in /tmp/wt/r-*-out/a /tmp/wt/r-*-out/b; do
    [ -f "$d/patch.diff" ] && [ -f "$d/demo.py" ] && [ -f "$d/meta.json" ] && [ ! -f "$d/confirm.json" ] || continue
    recent=$(find "$d/patch.diff" "$d/demo.py" "$d/meta.json" -mmin -${IDLE_MIN:-12} | wc -l)
    [ "$recent" -eq 0 ] && { todo="$d"; break; }
  done
  [ -z "$todo" ] && break
  base=$(basename "$(dirname "$todo")")
  prop=$(echo "$base" | sed 's/^r-//; s/-out$//')
  /verif/tools/confirm_seed.sh "$todo" "$prop$(basename "$todo")5" "${1:-6}"
done
echo "queue5 empty"
