#!/usr/bin/env python3
"""Prints the sub-agent prompt for a property (only the property's text + worktree instructions; nothing from /verif's checks)."""
import json, sys, subprocess
from pathlib import Path
pid, tag = sys.argv[1], sys.argv[2]
V = Path(__file__).resolve().parent.parent
p = next(json.loads(l) for l in (V / "properties.jsonl").read_text().splitlines() if json.loads(l)["id"] == pid)
wt = f"/tmp/wt/{tag}"
out = f"/tmp/wt/{tag}-out"
print(f"""You are working in a scratch git worktree of the open-source GHEDesigner repository (a Python ground heat exchanger design tool) at {wt}. Use /venv/bin/python. When your current directory is {wt}, `import ghedesigner` resolves to the worktree's copy (check with `cd {wt} && /venv/bin/python -c "import ghedesigner; print(ghedesigner.__file__)"`). Work ONLY inside {wt} and {out} (create it). Do NOT read, touch or reference /repo, /verif or any other directory; do not commit anything.

Here is a semantic property that users of the tool rely on:

  {p['id']}: {p['title']}
  {p['statement']}

Task: produce TWO independent, realistic changes to the library source (files under ghedesigner/, not the tests) each of which BREAKS this property while the code still imports and the existing test suite still passes. They should be the kind of defect a developer could plausibly introduce (a refactoring slip, off-by-one, wrong variable or index, stale cache, state left behind by an earlier call, a boundary comparison changed, a unit slip on one path only, ...), at two different sites / by two different mechanisms. Each change must need something specific to manifest - an unusual but valid input, a particular configuration, a multi-step sequence of API calls, or two cooperating edits that each look fine alone - NOT something that ordinary use would expose at once (the existing tests must keep passing).

For each change X in (a, b) deliver in {out}/X/:
  - patch.diff : `git diff` of the worktree with only that change applied
  - demo.py    : a small standalone program that exits 0 on the unmodified tree and exits non-zero (printing what went wrong) with the change applied; run as `cd {wt} && OMP_NUM_THREADS=1 /venv/bin/python {out}/X/demo.py`; keep it fast (under ~2 minutes)
  - meta.json  : {{"property": "{p['id']}", "summary": "...", "needs_to_manifest": "...", "files_touched": [...], "commands_run": [...], "test_result": "..."}}

You must verify yourself, for each change: (1) demo exits 0 without the change (use `git stash` / `git checkout`), non-zero with it; (2) the existing tests pass with the change applied:
  cd {wt} && OMP_NUM_THREADS=1 OPENBLAS_NUM_THREADS=1 /venv/bin/python -m pytest -q -p no:cacheprovider -n 4 --timeout=900 --deselect ghedesigner/tests/test_demo_files.py
(about 10-15 minutes; all 60 tests must pass; test_demo_files fails on the unmodified tree already and is excluded. You may first run only the test files that import the module you touched, but run the full command before you finish.) If a change makes a test fail, choose a different change.
When done, leave the worktree clean (git checkout -- . ; the patches live in {out}). Tip: set OMP_NUM_THREADS=1 for anything that runs the simulation; a full design run takes 5-60 s. Finish with a short report: what each change does and why the tests do not notice it.""")
