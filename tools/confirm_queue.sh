#!/bin/bash
# Confirms every seed under /tmp/wt/m-*-out/{a,b} that has no confirm.json yet, one at a time (flock: only one queue runs).
exec 9>/tmp/wt/.confirm.lock
flock -n 9 || { echo "queue already running"; exit 0; }
while :; do
  todo=""
  for d in /tmp/wt/m-*-out/a /tmp/wt/m-*-out/b; do
    [ -f "$d/patch.diff" ] && [ ! -f "$d/confirm.json" ] && { todo="$d"; break; }
  done
  [ -z "$todo" ] && break
  prop=$(basename "$(dirname "$todo")" | sed 's/^m-//; s/-out$//')
  /verif/tools/confirm_seed.sh "$todo" "$prop$(basename "$todo")" "${1:-6}"
done
echo "queue empty"
