#!/bin/bash
# Confirms every seed under /tmp/wt/{m,n}-*-out/{a,b} that has patch.diff + demo.py + meta.json (all untouched for 6 minutes, i.e. the
# agent is done with them) and no confirm.json yet, one at a time (flock: only one queue runs).
exec 9>/tmp/wt/.confirm.lock
flock -n 9 || { echo "queue already running"; exit 0; }
while :; do
  todo=""
  for d in /tmp/wt/[mn]-*-out/a /tmp/wt/[mn]-*-out/b; do
    [ -f "$d/patch.diff" ] && [ -f "$d/demo.py" ] && [ -f "$d/meta.json" ] && [ ! -f "$d/confirm.json" ] || continue
    recent=$(find "$d/patch.diff" "$d/demo.py" "$d/meta.json" -mmin -6 | wc -l)
    [ "$recent" -eq 0 ] && { todo="$d"; break; }
  done
  [ -z "$todo" ] && break
  base=$(basename "$(dirname "$todo")")
  prop=$(echo "$base" | sed 's/^[mn]-//; s/-out$//')
  wave=$(echo "$base" | cut -c1)
  suffix=$(basename "$todo"); [ "$wave" = n ] && suffix="${suffix}2"
  /verif/tools/confirm_seed.sh "$todo" "$prop$suffix" "${1:-6}"
done
echo "queue empty"
