#!/bin/bash
# run_all.sh <tier> [outdir] [props...] : runs the checks one after the other, evidence/replays redirected to outdir if given
tier="${1:-quick}"; out="$2"; shift 2 2>/dev/null
props="$@"; [ -z "$props" ] && props="C16 C19 C11 C15 C20 C04 C08 C06 C14 C18 C10 C07 C09 C17 C03 C13 C01 C02 C05 C12"
cd /verif
for p in $props; do
  t0=$(date +%s)
  if [ -n "$out" ]; then mkdir -p "$out"; VERIF_OUT="$out" ./check $p --tier $tier > "$out/$p.log" 2>&1; rc=$?; tail -1 "$out/$p.log" | cut -c1-200
  else ./check $p --tier $tier > /tmp/run_all_$p.log 2>&1; rc=$?; tail -1 /tmp/run_all_$p.log | cut -c1-200; fi
  echo "== $p tier=$tier exit=$rc wall=$(( $(date +%s) - t0 ))s"
done
