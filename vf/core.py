"""Runner shared by every check: enumeration driver, worker pool, violation classes,
known-finding matching, replay artefacts, evidence writer, exit protocol.

Exit protocol (DESIGN.md section 2):
  0  every explored case satisfied the property (KNOWN-FINDING lines allowed)
  1  at least one violation not listed in known_findings.json (VIOLATION lines)
  2  harness error (seam vanished, non-reproducible failure, import failure)
"""
from __future__ import annotations

import hashlib
import json
import multiprocessing as mp
import os
import subprocess
import sys
import time
import traceback
from pathlib import Path

VERIF = Path(__file__).resolve().parent.parent
OUT = Path(os.environ.get("VERIF_OUT", str(VERIF)))  # where evidence/ and replays/ go (seed trials redirect it)
REPO = Path(os.environ.get("VERIF_REPO", "/repo"))
NPROC = int(os.environ.get("VERIF_NPROC", str(min(16, os.cpu_count() or 1))))


class HarnessError(Exception):
    pass


def canon(obj) -> str:
    return json.dumps(obj, sort_keys=True, separators=(",", ":"), default=_json_default)


def _json_default(o):
    try:
        import numpy as np

        if isinstance(o, np.generic):
            return o.item()
        if isinstance(o, np.ndarray):
            return o.tolist()
    except Exception:  # noqa: BLE001
        pass
    if isinstance(o, (set, frozenset)):
        return sorted(o)
    if isinstance(o, tuple):
        return list(o)
    if isinstance(o, Path):
        return str(o)
    return repr(o)


def h64(obj) -> int:
    return int.from_bytes(hashlib.blake2b(canon(obj).encode(), digest_size=8).digest(), "big")


def assert_repo_import():
    import ghedesigner

    f = str(Path(ghedesigner.__file__).resolve())
    if not f.startswith(str(REPO.resolve()) + "/"):
        raise HarnessError(f"ghedesigner imported from {f}, expected under {REPO}")


def viol(kind: str, case, observed=None, expected=None, msg: str = "", **attrs) -> dict:
    """A violation record.  `kind` + `attrs` form the violation class (known-finding signatures match on them)."""
    return {
        "kind": kind,
        "attrs": attrs,
        "case": case,
        "observed": observed,
        "expected": expected,
        "msg": msg,
    }


class Result(dict):
    """What run_case returns: violations, counters, non-trivial flag, outcome label, optional state graph."""

    def __init__(self, **kw):
        super().__init__(
            violations=[],
            evals=1,
            nontrivial=0,
            outcomes={},
            stats={},
            states=[],
            transitions=[],
            excluded=0,
            sample=None,
        )
        self.update(kw)

    def bump(self, key, n=1):
        self["stats"][key] = self["stats"].get(key, 0) + n

    def outcome(self, label, n=1):
        self["outcomes"][label] = self["outcomes"].get(label, 0) + n


# ---------------------------------------------------------------- pool plumbing

_WORK = {}


def _pool_init(modname, init_args):
    import importlib

    mod = importlib.import_module(modname)
    _WORK["mod"] = mod
    if hasattr(mod, "init_worker"):
        mod.init_worker(*init_args)


def _pool_run(item):
    idx, case = item
    mod = _WORK["mod"]
    _WORK["seq"] = _WORK.get("seq", 0) + 1
    try:
        res = mod.run_case(case)
    except HarnessError as e:
        return idx, {"harness_error": f"{e}", "case": case}
    except BaseException as e:  # noqa: BLE001
        return idx, {"harness_error": f"run_case raised {type(e).__name__}: {e}\n{traceback.format_exc()}", "case": case}
    res = dict(res)
    res["_worker"] = (os.getpid(), _WORK["seq"])  # which process ran this case, and as its how-manieth (history-dependent failures)
    return idx, res


class Run:
    def __init__(self, prop: str, tier: str, seed: int, modname: str):
        self.prop = prop
        self.tier = tier
        self.seed = seed
        self.modname = modname
        self.t0 = time.time()
        self.evals = 0
        self.cases = 0
        self.nontrivial = 0
        self.excluded = 0
        self.outcomes: dict = {}
        self.stats: dict = {}
        self.states: set = set()
        self.transitions: set = set()
        self.samples: list = []
        self.violations: list = []  # all, in enumeration order
        self.case_hashes: set = set()
        self.duplicates = 0
        self.families: dict = {}
        self.notes: list = []
        self.caps: list = []

    # -- enumeration driver -------------------------------------------------
    def drive(self, cases, family: str = "main", chunksize: int = 1, init_args=(), max_samples: int = 3, serial=False, fresh_process=False):
        """Run every case of `cases` (a list of JSON-able dicts) through <module>.run_case in a worker pool.

        Results are consumed in enumeration order, whatever order the workers finish in.  VERIF_SEED
        rotates the order in which cases are handed out (never which cases)."""
        cases = list(cases)
        if getattr(self, "only", None) is not None and family not in self.only:
            self.caps.append(f"family {family} skipped (--only)")
            return []
        n = len(cases)
        fam = self.families.setdefault(family, {"cases": 0, "evals": 0, "nontrivial": 0, "violations": 0})
        if n == 0:
            return []
        rot = self.seed % n
        order = list(range(rot, n)) + list(range(0, rot))
        items = [(i, cases[i]) for i in order]
        results = [None] * n
        if serial or NPROC <= 1 or n == 1:
            _pool_init(self.modname, init_args)
            for it in items:
                i, r = _pool_run(it)
                results[i] = r
        else:
            ctx = mp.get_context("fork")
            # fresh_process: every case runs in a newly forked worker, so nothing an earlier case left behind in the process
            # (module-level caches, mutated defaults) can mask or cause a history-dependent failure
            with ctx.Pool(min(NPROC, n), initializer=_pool_init, initargs=(self.modname, init_args),
                          maxtasksperchild=1 if fresh_process else None) as pool:
                for i, r in pool.imap_unordered(_pool_run, items, chunksize=chunksize):
                    results[i] = r
        for i, r in enumerate(results):
            if "harness_error" in r:
                raise HarnessError(f"family {family} case #{i}: {r['harness_error']}\ncase={canon(r['case'])[:2000]}")
            ch = h64(cases[i])
            if ch in self.case_hashes:
                self.duplicates += 1
            else:
                self.case_hashes.add(ch)
                self.nontrivial += int(r["nontrivial"])
                fam["nontrivial"] += int(r["nontrivial"])
            self.cases += 1
            fam["cases"] += 1
            self.evals += int(r["evals"])
            fam["evals"] += int(r["evals"])
            self.excluded += int(r.get("excluded", 0))
            for k, v in r["outcomes"].items():
                self.outcomes[k] = self.outcomes.get(k, 0) + v
            for k, v in r["stats"].items():
                self.stats[k] = self.stats.get(k, 0) + v
            self.states.update(r.get("states", ()))
            self.transitions.update(tuple(t) for t in r.get("transitions", ()))
            if r.get("sample") is not None and sum(1 for s in self.samples if s.get("family") == family) < max_samples:
                self.samples.append({"family": family, "case": r["sample"]})
            for v in r["violations"]:
                v = dict(v)
                v["family"] = family
                if canon(v["case"]) != canon(cases[i]):
                    v["chunk_case"] = cases[i]  # the whole operation sequence the worker ran (history-dependent failures)
                w = r.get("_worker")
                if w is not None:
                    # every case the same worker process ran before this one, in the order it ran them
                    v["_history"] = (results, cases, w)
                self.violations.append(v)
                fam["violations"] += 1
        return results

    def note(self, s):
        self.notes.append(s)

    def cap(self, s):
        self.caps.append(s)

    # -- finishing ------------------------------------------------------------
    def finish(self, rule: str, bounds: dict, assumptions: list, exhaustive: bool = True, extra: dict | None = None,
               traces_validated: int | None = None, require_outcomes=()):
        known = load_known(self.prop)
        classes: dict = {}
        for v in self.violations:
            key = canon([v["kind"], v["attrs"]])
            classes.setdefault(key, []).append(v)
        unlisted = []
        listed = []
        for key, vs in classes.items():
            kf = match_known(known, vs[0])
            (listed if kf else unlisted).append((key, vs, kf))
        vacuity = [o for o in require_outcomes if self.outcomes.get(o, 0) == 0 and self.stats.get(o, 0) == 0]
        if getattr(self, "only", None) is not None:
            vacuity = []  # a run restricted to some families cannot be judged for vacuity
        status = 0
        lines = []
        replay_dir = OUT / "replays" / self.prop
        if replay_dir.exists():
            for old in replay_dir.glob("*.json"):
                old.unlink()
        # confirm and report
        nrep = 0
        by_key: dict = {}
        for key, vs, kf in listed:
            by_key.setdefault(kf["key"], [kf, 0])[1] += len(vs)
        for k, (kf, ncases) in by_key.items():
            lines.append(f"KNOWN-FINDING: property={self.prop} {k}: {kf['what']} ({ncases} cases in this run)")
        for key, vs, _ in unlisted:
            nrep += 1
            replay_dir.mkdir(parents=True, exist_ok=True)
            path = replay_dir / f"{nrep}.json"
            v = vs[0]
            rec = {
                "property": self.prop,
                "check": self.modname,
                "family": v.get("family"),
                "kind": v["kind"],
                "attrs": v["attrs"],
                "case": v["case"],
                "observed": v["observed"],
                "expected": v["expected"],
                "msg": v["msg"],
                "cases_in_class": len(vs),
                "how_to_run": f"cd /verif && ./check {self.prop} --replay {path}",
                "as_unit_test": UNIT_TEST_TEMPLATE.format(prop=self.prop, mod=self.modname, path=str(path), kind=v["kind"]),
            }
            path.write_text(json.dumps(rec, indent=1, sort_keys=True, default=_json_default))
            ok, why = confirm_replay(self.prop, path, v["kind"])
            if not ok and v.get("chunk_case") is not None:
                # the minimal case alone does not fail: the failure needs the history.  Replay the whole operation
                # sequence of the chunk in a fresh interpreter; if that fails the same way, the chunk is the artefact.
                rec["case"] = v["chunk_case"]
                rec["history_dependent"] = True
                rec["minimal_case_that_needs_history"] = v["case"]
                path.write_text(json.dumps(rec, indent=1, sort_keys=True, default=_json_default))
                ok, why2 = confirm_replay(self.prop, path, v["kind"])
                why = f"{why}; with history: {why2}"
            if not ok and v.get("_history") is not None:
                # still not reproduced: the failure needs what the same worker process did before.  Replay every case that
                # process ran, in its order, in a fresh interpreter.
                results_, cases_, (pid, seq) = v["_history"]
                before = sorted((r_["_worker"][1], j) for j, r_ in enumerate(results_) if r_.get("_worker") and r_["_worker"][0] == pid and r_["_worker"][1] <= seq)
                if len(before) > 1:
                    rec["case"] = {"__sequence__": [cases_[j] for _, j in before]}
                    rec["history_dependent"] = True
                    rec["minimal_case_that_needs_history"] = v["case"]
                    path.write_text(json.dumps(rec, indent=1, sort_keys=True, default=_json_default))
                    ok, why3 = confirm_replay(self.prop, path, v["kind"])
                    why = f"{why}; with the worker's history ({len(before)} cases): {why3}"
            if not ok:
                lines.append(f"HARNESS-ERROR nondeterministic: {why} ({path})")
                if status == 0:
                    status = 2
            else:
                lines.append(f"VIOLATION property={self.prop} replay={path}")
                lines.append(f"  class={v['kind']} {canon(v['attrs'])} cases={len(vs)} :: {v['msg'][:300]}")
                status = 1  # a confirmed violation outranks classes that could not be reproduced
        if vacuity and status == 0 and not listed:
            lines.append(f"HARNESS-ERROR vacuous: required outcome classes never reached: {vacuity}")
            status = 2
        cov = {
            "evaluations": self.evals,
            "cases": self.cases,
            "distinct_nontrivial": self.nontrivial,
            "rule": rule,
            "samples": self.samples[:12] if self.samples else [{"note": "no sample recorded"}],
            "exhaustive": bool(exhaustive and not self.caps),
            "bounds": bounds,
            "families": self.families,
            "outcomes": dict(sorted(self.outcomes.items())),
            "distinct_outcomes": len(self.outcomes),
            "stats": dict(sorted(self.stats.items())),
            "excluded_boundary_cases": self.excluded,
            "duplicate_cases": self.duplicates,
            "caps_hit": self.caps,
            "violation_classes_unlisted": [json.loads(k) for k, _, _ in unlisted],
            "known_findings_seen": [kf["key"] for _, _, kf in listed],
            "notes": self.notes,
        }
        if self.states or self.transitions:
            cov["states"] = len(self.states)
            cov["transitions"] = len(self.transitions)
            cov["traces_validated_against_impl"] = int(traces_validated if traces_validated is not None else self.cases)
        if extra:
            cov.update(extra)
        ev = {
            "property_id": self.prop,
            "tier": self.tier,
            "seed": self.seed,
            "level": "model_checking",
            "coverage": cov,
            "assumptions": assumptions,
            "wall_s": round(time.time() - self.t0, 2),
            "violations": sum(len(vs) for _, vs, _ in unlisted),
        }
        write_evidence(self.prop, ev)
        for ln in lines:
            print(ln)
        print(
            f"[{self.prop}] tier={self.tier} seed={self.seed} cases={self.cases} evaluations={self.evals} "
            f"nontrivial={self.nontrivial} states={len(self.states)} transitions={len(self.transitions)} "
            f"outcomes={len(self.outcomes)} excluded={self.excluded} unlisted_violation_classes={len(unlisted)} "
            f"known={len(listed)} wall={ev['wall_s']}s exit={status}"
        )
        return status


UNIT_TEST_TEMPLATE = """# plain unit test that replays this case without the explorer:
#   cd /verif && OMP_NUM_THREADS=1 PYTHONPATH=/repo:/verif /venv/bin/python -m unittest <this snippet saved as a file>
import importlib, json, unittest

class Replay_{prop}(unittest.TestCase):
    def test_case_satisfies_property(self):
        rec = json.load(open("{path}"))
        mod = importlib.import_module("{mod}")
        if hasattr(mod, "init_worker"):
            mod.init_worker(*getattr(mod, "REPLAY_INIT_ARGS", ()))
        case = rec["case"]
        for c in (case["__sequence__"] if isinstance(case, dict) and "__sequence__" in case else [case]):
            res = mod.run_case(c)  # a history-dependent failure is replayed as the sequence of cases one worker ran; the last one counts
        self.assertEqual([], [v["kind"] + ": " + v["msg"] for v in res["violations"]], "expected no violation (recorded class: {kind})")

if __name__ == "__main__":
    unittest.main()
"""


def write_evidence(prop, ev):
    d = OUT / "evidence"
    d.mkdir(parents=True, exist_ok=True)
    txt = json.dumps(ev, indent=1, sort_keys=True, default=_json_default)
    ev2 = json.loads(txt)
    schema_path = VERIF / "schemas" / "EVIDENCE.schema.json"
    try:
        import jsonschema

        jsonschema.validate(ev2, json.loads(schema_path.read_text()))
    except ImportError:
        pass
    (d / f"{prop}.json").write_text(txt + "\n")


def load_known(prop):
    p = VERIF / "known_findings.json"
    if not p.exists():
        return []
    data = json.loads(p.read_text())
    return [e for e in data.get("findings", []) if e.get("property") == prop and e.get("status") == "open"]


def match_known(known, v):
    """An open entry matches when its signature's kind equals the violation's kind and every attribute it
    names equals the violation's attribute (a list in the signature = any of)."""
    for e in known:
        sig = e.get("signature", {})
        k = sig.get("kind")
        if (v["kind"] not in k) if isinstance(k, list) else (k != v["kind"]):
            continue
        ok = True
        for k, want in sig.items():
            if k == "kind":
                continue
            have = v["attrs"].get(k, None)
            if isinstance(want, list):
                if have not in want:
                    ok = False
            elif have != want:
                ok = False
        if ok:
            return e
    return None


def confirm_replay(prop, path, kind):
    """Re-execute the failing case in a fresh interpreter; it must fail again with the same class."""
    if os.environ.get("VERIF_NO_CONFIRM"):
        return True, ""
    env = dict(os.environ)
    env["VERIF_NO_CONFIRM"] = "1"
    p = subprocess.run([str(VERIF / "check"), prop, "--replay", str(path)], capture_output=True, text=True, env=env,
                       timeout=3600)
    if p.returncode in (0, 1) and f"REPLAY-VIOLATION kind={kind} " in p.stdout:
        return True, ""
    return False, f"replay exit={p.returncode} out={p.stdout[-300:]!r} err={p.stderr[-300:]!r}"


def do_replay(prop, modname, path):
    import importlib

    rec = json.loads(Path(path).read_text())
    mod = importlib.import_module(modname)
    if hasattr(mod, "init_worker"):
        mod.init_worker(*getattr(mod, "REPLAY_INIT_ARGS", ()))
    if isinstance(rec["case"], dict) and "__sequence__" in rec["case"]:
        vs = []
        for c in rec["case"]["__sequence__"]:  # the cases one worker process ran, in its order
            vs = list(mod.run_case(c)["violations"])
        # only the last case's violations count: it is the one that was reported
    else:
        res = mod.run_case(rec["case"])
        vs = res["violations"]
    if not vs:
        print(f"REPLAY-OK property={prop} case no longer violates")
        return 0
    seen_cls = set()
    for v in vs:  # one line per violation class (a replayed chunk can hold thousands of cases of the same class)
        key = canon([v["kind"], v["attrs"]])
        if key in seen_cls or len(seen_cls) >= 60:
            continue
        seen_cls.add(key)
        print(f"REPLAY-VIOLATION kind={v['kind']} attrs={canon(v['attrs'])} :: {v['msg'][:500]}")
    if len(vs) > len(seen_cls):
        print(f"... {len(vs)} violations in {len(seen_cls)} classes in this replay")
    known = load_known(prop)
    if all(match_known(known, v) for v in vs):
        print(f"KNOWN-FINDING: property={prop} (replayed case matches a listed finding)")
        return 0
    print(f"VIOLATION property={prop} replay={path}")
    return 1
