"""Manager builders shared by engines A, B, E: one place that knows how to configure a GHEManager through its
public setters."""
from __future__ import annotations

PIPES = ("single", "double_parallel", "double_series", "coaxial")
METHODS = ("nearsquare", "rectangle", "birectangle", "bizoned", "constrained", "rowwise")

# demo values (ghedesigner/tests and demos)
SINGLE_U = dict(inner_diameter=0.03404, outer_diameter=0.04216, shank_spacing=0.01856, roughness=1.0e-6,
                conductivity=0.4, rho_cp=1542000.0)
DOUBLE_U = dict(inner_diameter=0.03404, outer_diameter=0.04216, shank_spacing=0.01856, roughness=1.0e-6,
                conductivity=0.4, rho_cp=1542000.0)
COAX = dict(inner_pipe_d_in=0.0442, inner_pipe_d_out=0.050, outer_pipe_d_in=0.0974, outer_pipe_d_out=0.11,
            roughness=1.0e-6, conductivity_inner=0.4, conductivity_outer=0.4, rho_cp=1542000.0)

PROP_POLY = [[0.0, 0.0], [40.0, 0.0], [40.0, 25.0], [25.0, 25.0], [25.0, 15.0], [0.0, 15.0]]
NOGO_POLY = [[[8.0, 4.0], [14.0, 4.0], [14.0, 9.0], [8.0, 9.0]]]
ROW_POLY = [[2.0, 3.0], [42.0, 3.0], [42.0, 28.0], [2.0, 28.0]]


# a second value set in which no two numbers coincide (so that a swapped or duplicated field shows)
SINGLE_U_DISTINCT = dict(inner_diameter=0.0269, outer_diameter=0.0334, shank_spacing=0.0323, roughness=2.0e-6, conductivity=0.389, rho_cp=1600000.0)
COAX_DISTINCT = dict(inner_pipe_d_in=0.0402, inner_pipe_d_out=0.048, outer_pipe_d_in=0.0954, outer_pipe_d_out=0.108, roughness=2.0e-6,
                     conductivity_inner=0.1, conductivity_outer=0.43, rho_cp=1600000.0)


def set_pipe(m, pipe: str, distinct: bool = False):
    if pipe == "single":
        m.set_single_u_tube_pipe(**(SINGLE_U_DISTINCT if distinct else SINGLE_U))
    elif pipe == "double_parallel":
        m.set_double_u_tube_pipe_parallel(**(SINGLE_U_DISTINCT if distinct else DOUBLE_U))
    elif pipe == "double_series":
        m.set_double_u_tube_pipe_series(**(SINGLE_U_DISTINCT if distinct else DOUBLE_U))
    elif pipe == "coaxial":
        m.set_coaxial_pipe(**(COAX_DISTINCT if distinct else COAX))
    else:
        raise ValueError(pipe)


def set_geometry(m, method: str, geo: dict | None = None):
    g = dict(geo or {})
    if method == "nearsquare":
        m.set_geometry_constraints_near_square(b=g.get("b", 5.0), length=g.get("length", 40.0))
    elif method == "rectangle":
        m.set_geometry_constraints_rectangle(length=g.get("length", 40.0), width=g.get("width", 25.0),
                                             b_min=g.get("b_min", 3.0), b_max=g.get("b_max", 10.0))
    elif method == "birectangle":
        m.set_geometry_constraints_bi_rectangle(length=g.get("length", 40.0), width=g.get("width", 25.0),
                                                b_min=g.get("b_min", 3.0), b_max_x=g.get("b_max_x", 10.0),
                                                b_max_y=g.get("b_max_y", 12.0))
    elif method == "bizoned":
        m.set_geometry_constraints_bi_zoned_rectangle(length=g.get("length", 40.0), width=g.get("width", 25.0),
                                                      b_min=g.get("b_min", 3.0), b_max_x=g.get("b_max_x", 10.0),
                                                      b_max_y=g.get("b_max_y", 12.0))
    elif method == "constrained":
        m.set_geometry_constraints_bi_rectangle_constrained(
            b_min=g.get("b_min", 3.0), b_max_x=g.get("b_max_x", 10.0), b_max_y=g.get("b_max_y", 12.0),
            property_boundary=g.get("property_boundary", PROP_POLY), no_go_boundaries=g.get("no_go_boundaries", NOGO_POLY))
    elif method == "rowwise":
        m.set_geometry_constraints_rowwise(
            perimeter_spacing_ratio=g.get("perimeter_spacing_ratio", None),
            max_spacing=g.get("max_spacing", 12.0), min_spacing=g.get("min_spacing", 5.0),
            spacing_step=g.get("spacing_step", 0.5), max_rotation=g.get("max_rotation", 0.0),
            min_rotation=g.get("min_rotation", -90.0), rotate_step=g.get("rotate_step", 15.0),
            property_boundary=g.get("property_boundary", ROW_POLY), no_go_boundaries=g.get("no_go_boundaries", []))
    else:
        raise ValueError(method)


def build_manager(method: str, pipe: str = "single", flow: str = "borehole", flow_rate: float = 0.5, loads=None,
                  months: int = 24, max_eft: float = 35.0, min_eft: float = 5.0, hmax: float = 135.0, hmin: float = 60.0,
                  cap=None, cont: bool = False, geo: dict | None = None, fluid=("Water", 0.0), soil=(2.0, 2343493.0, 18.3),
                  grout=(1.0, 3901000.0), borehole=(96.0, 2.0, 0.150), do_set_design: bool = True, distinct_pipe: bool = False):
    from ghedesigner.manager import GHEManager

    m = GHEManager()
    set_pipe(m, pipe, distinct_pipe)
    m.set_soil(conductivity=soil[0], rho_cp=soil[1], undisturbed_temp=soil[2])
    m.set_grout(conductivity=grout[0], rho_cp=grout[1])
    m.set_fluid(fluid_name=fluid[0], concentration_percent=fluid[1])
    m.set_borehole(height=borehole[0], buried_depth=borehole[1], diameter=borehole[2])
    m.set_simulation_parameters(num_months=months, max_eft=max_eft, min_eft=min_eft, max_height=hmax, min_height=hmin,
                                max_boreholes=cap, continue_if_design_unmet=cont)
    m.set_ground_loads_from_hourly_list(loads if loads is not None else [0.0] * 8760)
    set_geometry(m, method, geo)
    if do_set_design:
        m.set_design(flow_rate=flow_rate, flow_type_str=flow)
    return m
