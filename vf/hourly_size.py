"""C05, sizing with the hourly time step (GHE.size(method=HOURLY), the validation step the design classes recommend): the height that
comes back is a root of the HOURLY excess, or sits at a bound on the right side."""
from __future__ import annotations

import warnings

from vf import core, ghe_factory, loadgen

HEIGHTS = [60.0, 97.5, 135.0]


def _ghe(case):
    n = case["N"]
    coords = [(5.0 * (j % 3), 5.0 * (j // 3)) for j in range(n)]
    loads = [x * (-1.0 if case.get("mirror") else 1.0) for x in loadgen.atlanta_like(case["scale"])]
    # "heights": the heights the long-time table was computed for (a pre-computed family may be wider than the allowed height window)
    gf = ghe_factory.table_gfunction(coords, 5.0 if n > 1 else 0.075, case.get("heights", HEIGHTS), 0.075, curve=case.get("curve", "base"))
    return ghe_factory.make_ghe(coords, pipe=case.get("pipe", "single"), H=100.0, loads=loads, months=case.get("months", 12), gfunc=gf)


def run_case(case):
    from ghedesigner.enums import TimestepType

    res = core.Result(evals=0)
    method = TimestepType.HOURLY if case["method"] == "hourly" else TimestepType.HYBRID
    with warnings.catch_warnings():
        warnings.simplefilter("ignore")
        ghe = _ghe(case)
        res["evals"] += 1
        ghe.size(method=method)
        h = float(ghe.bhe.b.H)
        sp = ghe.sim_params
        fresh = _ghe(case)
        fresh.bhe.b.H = h
        mx, mn = fresh.simulate(method=method)
    excess = max(float(mx) - sp.max_EFT_allowable, sp.min_EFT_allowable - float(mn))
    lo, hi = sp.min_height, sp.max_height
    if lo < h < hi:
        if abs(excess) > 1e-3:
            res["violations"].append(core.viol("height_not_a_root", case, observed=excess, expected="|excess| <= 1e-3",
                                               msg=f"size(method={case['method']}) returned {h:.4f} m inside the window, but a fresh {case['method']} simulation of that field at that height has excess {excess:.5f} K",
                                               sizing=case["method"], clamped="no"))
        res.outcome("sized_inside_window")
    elif h == hi and excess < -1e-3:
        res["violations"].append(core.viol("height_not_a_root", case, observed=excess, msg=f"size(method={case['method']}) clamped at the maximum height although the excess there is {excess:.5f} K", sizing=case["method"], clamped="max"))
    elif h == lo and excess > 1e-3:
        res["violations"].append(core.viol("height_not_a_root", case, observed=excess, msg=f"size(method={case['method']}) clamped at the minimum height although the excess there is {excess:.5f} K", sizing=case["method"], clamped="min"))
    elif not (lo <= h <= hi):
        res["violations"].append(core.viol("height_out_of_bounds", case, observed=h, msg=f"size(method={case['method']}) returned {h} m outside [{lo}, {hi}]", sizing=case["method"]))
    else:
        res.outcome("sized_at_a_bound")
    res.outcome("object_sizing")
    res["nontrivial"] += 1
    res["sample"] = dict(case)
    res["states"], res["transitions"] = [], []
    return res
