"""Real GHE objects (real pygfunction g-functions, real BHE, radial model and hybrid loads) for the object-level checks."""
from __future__ import annotations

import warnings

from vf import scenarios


def parts(pipe="single", fluid=("Water", 0.0), soil=(2.0, 2343493.0, 18.3), grout=(1.0, 3901000.0), months=12,
          max_eft=35.0, min_eft=5.0, hmax=135.0, hmin=60.0):
    m = scenarios.build_manager("nearsquare", pipe=pipe, fluid=fluid, soil=soil, grout=grout, months=months, max_eft=max_eft,
                                min_eft=min_eft, hmax=hmax, hmin=hmin, do_set_design=False)
    return m


def make_ghe(coords, pipe="single", H=100.0, loads=None, months=12, flow_per_bh=0.5, hvals=None, fluid=("Water", 0.0),
             soil=(2.0, 2343493.0, 18.3), grout=(1.0, 3901000.0), rb=0.075, system_flow=None, gfunc=None, load_years=None, shared=None, **kw):
    """system_flow: if given, the GHE is built from a system flow (L/s) instead of per-borehole flow;
    shared: (manager, borehole) whose media / pipe / borehole objects are used as they are (as one search uses them for every candidate)"""
    from ghedesigner.borehole import GHEBorehole
    from ghedesigner.gfunction import calc_g_func_for_multiple_lengths
    from ghedesigner.ground_heat_exchangers import GHE
    from ghedesigner.utilities import borehole_spacing, eskilson_log_times

    if shared is not None:
        m, bh = shared
    else:
        m = parts(pipe=pipe, fluid=fluid, soil=soil, grout=grout, months=months, **kw)
        bh = GHEBorehole(H, 2.0, rb, x=0.0, y=0.0)
    n = len(coords)
    v_sys = system_flow if system_flow is not None else flow_per_bh * n
    m_flow_bh = v_sys / n / 1000.0 * m._fluid.rho
    b = borehole_spacing(bh, coords)
    if gfunc is None:
        gfunc = calc_g_func_for_multiple_lengths(b, hvals or [H], bh.r_b, bh.D, m_flow_bh, m.pipe_type, eskilson_log_times(),
                                                 coords, m._fluid, m._pipe, m._grout, m._soil)
    with warnings.catch_warnings():
        warnings.simplefilter("ignore")
        ghe = GHE(v_sys, b, m.pipe_type, m._fluid, bh, m._pipe, m._grout, m._soil, gfunc, m._simulation_parameters,
                  loads if loads is not None else [0.0] * 8760, load_years=load_years)
    return ghe


def table_gfunction(coords, b, heights, rb, curve="base", depth=2.0):
    """A hand-built monotone long-time g-function table (cheap; for checks that quantify over 'all monotone tables')."""
    from ghedesigner.gfunction import GFunction
    from ghedesigner.utilities import eskilson_log_times

    lt = eskilson_log_times()
    n = len(coords)
    g_lts = {}
    for h in heights:
        scale = {"base": 1.0, "steep": 1.6, "flat": 0.6}[curve]
        g_lts[h] = [scale * (4.0 + 0.9 * (x + 8.5) + 0.02 * n * max(0.0, x + 4.0) ** 2 * (100.0 / h) ** 0.3) for x in lt]
    return GFunction(b=b, d=depth, r_b_values={h: rb for h in heights}, g_lts=g_lts, log_time=lt, bore_locations=coords)
