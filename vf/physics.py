"""Engine B helpers: full-physics designs through the public API on a small lot, and bit-exact signatures of the result."""
from __future__ import annotations

import io
import json
import shutil
import tempfile
import warnings
from contextlib import redirect_stderr, redirect_stdout
from pathlib import Path

from vf import loadgen, scenarios

_LOADS = {}


def loads(kind: str):
    if kind not in _LOADS:
        base = loadgen.atlanta_like
        if kind == "office":
            v = base(0.6)
        elif kind == "mirror":
            v = [-x for x in base(0.6)]
        elif kind == "balanced":
            a = base(0.5)
            v = [x if x > 0 else 0.55 * x for x in a]
        elif kind == "const_rej":
            v = [-9000.0] * 8760
        elif kind == "const_ext":
            v = [7000.0] * 8760
        elif kind == "spiky":
            v = loadgen.build_profile([{"dir": "both", "cday": "mid", "hday": "second", "shape": "6h", "base": 0.05, "pc": 90.0, "ph": 60.0}] * 12)
        elif kind == "heating_first_day":
            v = loadgen.build_profile([{"dir": "h", "hday": "first", "shape": "6h", "base": 0.2, "pc": 0.0, "ph": 45.0}] * 12)
        elif kind == "december_only":
            v = [0.0] * 8760
            for h in range(loadgen.month_start_hour(11), 8760):
                v[h] = 9000.0  # extraction in December only: the coldest fluid is the last step of the horizon
        elif kind == "one_borehole":
            v = base(0.09)  # one borehole of ~100 m carries it: the smallest field meets the limits between the height bounds
        elif kind == "heavy":
            v = [x * 12.0 for x in base(0.6)]  # needs ~55 boreholes on a 60 x 40 m lot (a cap of 30 binds), cannot be carried by a 20 x 15 m lot
        elif kind == "negligible":
            v = [x * 1e-3 for x in base(0.6)]
        elif kind == "too_large":
            v = [x * 50.0 for x in base(0.6)]
        else:
            raise ValueError(kind)
        _LOADS[kind] = v
    return _LOADS[kind]


def manager(method, pipe="single", flow="borehole", load="office", months=24, cap=None, cont=False, narrow=False, geo=None, flow_rate=None, **kw):
    hmax, hmin = (100.0, 80.0) if narrow else (135.0, 60.0)
    if flow_rate is None:
        flow_rate = 0.3 if flow == "borehole" else 4.0
    return scenarios.build_manager(method, pipe=pipe, flow=flow, flow_rate=flow_rate, loads=list(loads(load)), months=months, hmax=hmax, hmin=hmin,
                                   cap=cap, cont=cont, geo=geo, **kw)


def find(m):
    """find_design with the tool's prints swallowed; returns None or the exception"""
    with warnings.catch_warnings():
        warnings.simplefilter("ignore")
        with redirect_stdout(io.StringIO()), redirect_stderr(io.StringIO()):
            try:
                m.find_design()
                return None
            except BaseException as e:  # noqa: BLE001
                return e


def fhex(x):
    return float(x).hex()


def signature(m):
    """bit-exact description of the returned design"""
    s = m._search
    g = s.ghe
    return {
        "coords": [[fhex(x), fhex(y)] for x, y in g.gFunction.bore_locations],
        "nbh": len(g.gFunction.bore_locations),
        "H": fhex(g.bhe.b.H),
        "max_eft": fhex(max(g.hp_eft)),
        "min_eft": fhex(min(g.hp_eft)),
        "log": [[str(r[0]), fhex(r[1]), fhex(r[2]), fhex(r[3])] for r in s.searchTracker],
    }


def write_outputs(m, tag="x"):
    """prepare_results + write_output_files into a scratch directory; returns (dir, dict name -> text)"""
    d = Path(tempfile.mkdtemp(prefix="vf-out-"))
    with warnings.catch_warnings():
        warnings.simplefilter("ignore")
        with redirect_stdout(io.StringIO()), redirect_stderr(io.StringIO()):
            m.prepare_results("verif", "notes", "vf", tag)
            m.write_output_files(d)
    files = {p.name: p.read_text() for p in d.iterdir()}
    return d, files


def stable_outputs(files):
    """file contents without the two time fields"""
    out = {}
    for name, txt in files.items():
        if name.endswith(".json"):
            j = json.loads(txt)
            j.pop("simulation_time_stamp", None)
            j.pop("simulation_runtime", None)
            out[name] = json.dumps(j, sort_keys=True)
        elif name.endswith(".txt"):
            out[name] = "\n".join(ln for ln in txt.splitlines() if not ln.startswith("Simulated On:") and not ln.startswith("Calculation Time"))
        else:
            out[name] = txt
    return out


def cleanup(d):
    shutil.rmtree(d, ignore_errors=True)
