"""Real designs run from an input FILE through the command-line worker (C02): the cap and the height window given in the file hold for the
design that comes back, however the names in the file are spelled (the tool's validation accepts any letter case)."""
from __future__ import annotations

import io
import json
import shutil
import tempfile
import warnings
from contextlib import redirect_stderr, redirect_stdout
from pathlib import Path

from vf import core, physics

CAP_FAMILY = ("nearsquare", "rectangle", "birectangle", "bizoned")


def recase(s, how):
    return {"upper": s.upper(), "lower": s.lower(), "capital": s.capitalize(), "mixed": "".join(c.lower() if i % 2 else c.upper() for i, c in enumerate(s))}[how]


def run_history_case(case):
    """one manager: a run that cannot meet the limits (no continue) fails with ValueError, then the lot is enlarged through the geometry
    setter and the design is run again WITHOUT calling set_simulation_parameters again: the cap given once still holds"""
    from vf import scenarios

    res = core.Result(evals=0)
    method, cap = case["method"], case["cap"]
    m = physics.manager(method, load=case["load"], months=12, cap=cap, cont=False, geo=case["geo_small"])
    e1 = physics.find(m)
    res["evals"] += 1
    scenarios.set_geometry(m, method, case["geo_large"])
    m.set_design(flow_rate=0.3, flow_type_str="borehole")
    e2 = physics.find(m)
    res["evals"] += 1
    first = "ValueError" if isinstance(e1, ValueError) else "design" if e1 is None else f"exc:{type(e1).__name__}"
    if e2 is None:
        nbh = len(m._search.ghe.gFunction.bore_locations)
        if nbh > cap:
            res["violations"].append(core.viol("cap_exceeded", case, observed=nbh, expected=cap, msg=f"{method}: second run on a manager whose first run ended with {first}: {nbh} boreholes returned with max_boreholes={cap} "
                                               f"(set once, before the first run)", method=method, via="history"))
        res.outcome("design")
    elif isinstance(e2, ValueError):
        res.outcome("ValueError")
    else:
        res["violations"].append(core.viol("wrong_exception_type", case, msg=f"{method}: second run raised {type(e2).__name__}: {e2}", exc=type(e2).__name__, method=method, via="history"))
    res.outcome("manager_histories_" + first)
    res["nontrivial"] += 1
    res["sample"] = dict(case)
    res["states"], res["transitions"] = [], []
    return res


def run_file_case(case):
    import ghedesigner.manager as mg

    if case.get("kind") == "history":
        return run_history_case(case)
    res = core.Result(evals=0)
    method, cap, cont = case["method"], case["cap"], case["cont"]
    try:
        m = physics.manager(method, pipe=case.get("pipe", "single"), load=case["load"], months=24, cap=cap, cont=cont)
    except ValueError:
        res.outcome("ValueError")
        res["states"], res["transitions"] = [], []
        return res
    except Exception as e:  # noqa: BLE001
        res["evals"] += 1
        res["violations"].append(core.viol("wrong_exception_type", case, msg=f"{method}: configuring the design (cap {cap!r}) raised {type(e).__name__}: {e}", exc=type(e).__name__, method=method, via="api"))
        res["states"], res["transitions"] = [], []
        return res
    tmp = Path(tempfile.mkdtemp(prefix="vf-c02-"))
    try:
        f = tmp / "in.json"
        m.write_input_file(f)
        inst = json.loads(f.read_text())
        how = case["casing"]
        inst["geometric_constraints"]["method"] = recase(inst["geometric_constraints"]["method"], how)
        inst["design"]["flow_type"] = recase(inst["design"]["flow_type"], how)
        inst["pipe"]["arrangement"] = recase(inst["pipe"]["arrangement"], how)
        inst["fluid"]["fluid_name"] = recase(inst["fluid"]["fluid_name"], how)
        f.write_text(json.dumps(inst))
        out = tmp / "out"
        res["evals"] += 1
        with warnings.catch_warnings():
            warnings.simplefilter("ignore")
            with redirect_stdout(io.StringIO()), redirect_stderr(io.StringIO()):
                try:
                    rc = mg._run_manager_from_cli_worker(f, out)
                except ValueError:
                    rc = "ValueError"
                except BaseException as e:  # noqa: BLE001
                    rc = f"exc:{type(e).__name__}"
        summ = out / "SimulationSummary.json"
        if isinstance(rc, str) and rc.startswith("exc:"):
            res["violations"].append(core.viol("wrong_exception_type", case, msg=f"{method} from a file ({how} case names): the run raised {rc[4:]}", exc=rc[4:], method=method, via="file"))
        elif rc == 0 and summ.exists():
            js = json.loads(summ.read_text())
            nbh = js["ghe_system"]["number_of_boreholes"]
            h = js["ghe_system"]["active_borehole_length"]["value"]
            if cap is not None and method in CAP_FAMILY and nbh > cap:
                res["violations"].append(core.viol("cap_exceeded", case, observed=nbh, expected=cap, msg=f"{method} from a file ({how} case names): {nbh} boreholes returned with max_boreholes={cap} in the file", method=method, via="file"))
            if not (60.0 - 1e-9 <= h <= 135.0 + 1e-9):
                res["violations"].append(core.viol("height_out_of_bounds", case, observed=h, msg=f"{method} from a file: returned height {h} outside [60, 135]", via="file"))
            res.outcome("design")
        else:
            res.outcome("ValueError" if rc in (1, "ValueError") else f"rc_{rc}")
        res.outcome("file_runs")
        res["nontrivial"] += 1
        res["sample"] = dict(case)
    finally:
        shutil.rmtree(tmp, ignore_errors=True)
    res["states"], res["transitions"] = [], []
    return res
