"""Engine B: full-physics bounded product through the public API (DESIGN.md section 3), plus the conformance replay that binds
engine A's worlds to the real physics.

One case = one point of a product over small alphabets (design method x pipe x flow type x load archetype x horizon x height window x
cap x continue).  The run records every simulate() call of the real search (field, height, max/min EFT) - the *query trace*.
Oracles : fresh re-simulation of the reported field at the reported height (C01, C05, C12); feasibility of the smallest / largest
          candidate by re-simulation (C02); file-level consistency of the written outputs (C12).
Conformance : the trace is turned into a table world and the same search is replayed through engine A; the query sequence, the
          selection and the returned height must be identical.
"""
from __future__ import annotations

import copy
import csv
import io
import json
import warnings

from vf import core, physics, scenarios, worlds

TOL = 1.0e-3

_trace = None


def _install_trace():
    """wrap the real GHE.simulate so that every call is logged (field, nbh, H, max, min)"""
    import ghedesigner.ground_heat_exchangers as ghx

    if getattr(ghx.GHE.simulate, "_vf_traced", False):
        return
    real = ghx.GHE.simulate

    def traced(self, method):
        r = real(self, method)
        if _trace is not None:
            _trace.append((worlds.field_key(self.gFunction.bore_locations), len(self.gFunction.bore_locations), float(self.bhe.b.H), float(r[0]), float(r[1]),
                           str(self.fieldSpecifier)))
        return r

    traced._vf_traced = True
    ghx.GHE.simulate = traced


def init_worker():
    warnings.filterwarnings("ignore")
    _install_trace()


def limits(case):
    return (100.0, 80.0) if case.get("narrow") else (135.0, 60.0)


def run_real(case):
    global _trace
    kw = {}
    if case.get("soil_k"):
        kw["soil"] = (case["soil_k"], 2343493.0, 18.3)
    m = physics.manager(case["method"], pipe=case["pipe"], flow=case.get("flow", "borehole"), load=case["load"], months=case.get("months", 24),
                        cap=case.get("cap"), cont=case.get("cont", False), narrow=case.get("narrow", False), **kw)
    _trace = []
    e = physics.find(m)
    tr, _trace = _trace, None
    obs = {"trace": tr, "m": m}
    if e is None:
        obs["outcome"] = "design"
        obs["sig"] = physics.signature(m)
    elif isinstance(e, ValueError):
        obs["outcome"], obs["exc"] = "ValueError", str(e)
    else:
        obs["outcome"], obs["exc"] = f"exc:{type(e).__name__}", str(e)
    return obs


def resimulate(m, coords, h):
    """fresh GHE for the reported field: g-functions at (min, mid, max) height as the manager's last step does, built at the nominal
    (max) height the tool uses, then simulated at the reported height"""
    from ghedesigner.borehole import GHEBorehole
    from ghedesigner.enums import TimestepType
    from ghedesigner.gfunction import calc_g_func_for_multiple_lengths
    from ghedesigner.ground_heat_exchangers import GHE
    from ghedesigner.utilities import borehole_spacing, eskilson_log_times

    sp = m._simulation_parameters
    d = m._design
    n = len(coords)
    bh = GHEBorehole(sp.max_height, m._borehole.D, m._borehole.r_b, x=0.0, y=0.0)
    from ghedesigner.enums import FlowConfigType

    v_sys = d.V_flow * n if d.flow_type == FlowConfigType.BOREHOLE else d.V_flow
    m_bh = v_sys / n / 1000.0 * m._fluid.rho
    b = borehole_spacing(bh, coords)
    hv = [sp.min_height, (sp.min_height + sp.max_height) / 2.0, sp.max_height]
    gf = calc_g_func_for_multiple_lengths(b, hv, bh.r_b, bh.D, m_bh, m.pipe_type, eskilson_log_times(), coords, m._fluid, m._pipe, m._grout, m._soil)
    ghe = GHE(v_sys, b, m.pipe_type, m._fluid, bh, m._pipe, m._grout, m._soil, gf, sp, m._ground_loads)
    ghe.bhe.b.H = h
    return ghe.simulate(method=TimestepType.HYBRID)


def candidate_extremes(m, method):
    """(smallest candidate, largest candidate below the cap or overall) of the design's lists, None for rowwise"""
    d = m._design
    if method == "rowwise":
        return None, None
    lists = [d.coordinates_domain] if hasattr(d, "coordinates_domain") and not hasattr(d, "coordinates_domain_nested") else d.coordinates_domain_nested
    allf = [f for lst in lists for f in lst]
    cap = m._simulation_parameters.max_boreholes
    allowed = [f for f in allf if cap is None or len(f) < cap] or allf[:1]
    return allf[0], max(allowed, key=len)


def judge_real(case, obs):
    V = {p: [] for p in ("C01", "C02", "C05", "C12", "C19")}
    m = obs["m"]
    method = case["method"]
    hmax, hmin = limits(case)
    sp = m._simulation_parameters
    out = obs["outcome"]
    cap, cont = case.get("cap"), bool(case.get("cont"))

    def v(prop, kind, msg, **a):
        V[prop].append(core.viol(kind, case, msg=f"{method}/{case['pipe']}/{case.get('flow', 'borehole')}/{case['load']}: {msg}", method=method, engine="B", **a))

    if out.startswith("exc:"):
        v("C02", "wrong_exception_type", f"find_design raised {out[4:]}: {obs['exc']}", exc=out[4:])
        return V, out
    smallest, largest = candidate_extremes(m, method)
    too_small = too_large = None
    if smallest is not None and case["load"] in ("negligible", "too_large"):
        if case["load"] == "negligible":
            mx, mn = resimulate(m, smallest, hmin)
            too_small = max(mx - sp.max_EFT_allowable, sp.min_EFT_allowable - mn) < 0
        else:
            mx, mn = resimulate(m, largest, hmax)
            too_large = max(mx - sp.max_EFT_allowable, sp.min_EFT_allowable - mn) > 0
    if out == "ValueError":
        if cont and (too_small or too_large) and method in ("nearsquare", "rectangle", "birectangle", "bizoned") and not (cap is not None and method in ("birectangle", "bizoned")):
            v("C02", "error_despite_continue", f"continue_if_design_unmet=True but the run ended with ValueError({obs['exc']!r})", world_class="too_small" if too_small else "too_large",
              msgtext=obs["exc"][:40])
        return V, "ValueError"
    sig = obs["sig"]
    g = m._search.ghe
    coords = [tuple(map(float, p)) for p in g.gFunction.bore_locations]
    h = float(g.bhe.b.H)
    nbh = len(coords)
    mx, mn = resimulate(m, coords, h)
    e = max(mx - sp.max_EFT_allowable, sp.min_EFT_allowable - mn)
    clamp = "min" if h == hmin else "max" if h == hmax else "no"
    escape = cont and ((clamp == "max" and e > 0) or (clamp == "min" and too_small))
    label = ("fallback_largest" if clamp == "max" else "fallback_smallest") if escape else f"design_clamped_{clamp}" if clamp != "no" else "design_bracketed"
    # C02
    if not (hmin <= h <= hmax):
        v("C02", "height_out_of_bounds", f"returned height {h} outside [{hmin},{hmax}]")
    if cap is not None and method in ("nearsquare", "rectangle", "birectangle", "bizoned") and nbh > cap:
        v("C02", "cap_exceeded", f"{nbh} boreholes with max_boreholes={cap}")
    if too_large and method in ("nearsquare", "rectangle", "birectangle", "bizoned"):
        if not cont:
            v("C02", "design_instead_of_error", f"the largest allowed candidate fails at max height, continue=False, yet {nbh} bh @ {h} m was returned", world_class="too_large")
        elif not (clamp == "max" and (largest is None or nbh >= len(largest) or (cap is not None and method in ("birectangle", "bizoned")))):
            v("C02", "wrong_fallback_largest", f"loads too large + continue: got {nbh} bh @ {h} m, largest allowed candidate has {len(largest)}", nested=method in ("birectangle", "bizoned"), capped=cap is not None)
    if too_small and method in ("nearsquare", "rectangle", "birectangle", "bizoned"):
        ok = nbh == len(smallest) and clamp == "min"
        if not ok:
            v("C02", "wrong_fallback_smallest" if cont else "design_instead_of_error", f"smallest candidate meets the limits at min height, continue={cont}, got {nbh} bh @ {h} m", world_class="too_small")
    # C01
    if not escape and e > TOL:
        v("C01", "returned_design_infeasible", f"re-simulating the returned {nbh} bh @ {h:.4f} m gives max/min EFT {mx:.4f}/{mn:.4f}: excess {e:.5f} K > 1e-3", clamped=clamp)
    # C05 (1): root unless clamped
    if not escape and clamp == "no" and abs(e) > TOL:
        v("C05", "height_not_a_root", f"returned height {h:.4f} m is inside the window but the re-simulated excess there is {e:.5f} K")
    if not escape and clamp == "max" and e < -TOL:
        v("C05", "oversized_clamp_max", f"height clamped at max although the excess there is {e:.5f} K")
    # C05 (2): not more drilling than a logged feasible candidate (nbh from the query trace)
    if not escape and method != "rowwise":
        tot = nbh * h
        for q in obs["trace"]:
            eq = max(q[3] - sp.max_EFT_allowable, sp.min_EFT_allowable - q[4])
            if q[2] == hmax and eq < 0 and tot > q[1] * hmax * (1 + 1e-12):
                v("C05", "more_drilling_than_evaluated_feasible", f"returned {nbh} x {h:.3f} = {tot:.1f} m but field {q[5]} ({q[1]} bh) was evaluated feasible at max height", logged=True, monotone=True)
                break
    # C12: state level
    if abs(float.fromhex(sig["max_eft"]) - mx) > TOL or abs(float.fromhex(sig["min_eft"]) - mn) > TOL:
        v("C12", "stale_temperatures", f"reported max/min EFT {float.fromhex(sig['max_eft']):.5f}/{float.fromhex(sig['min_eft']):.5f}, re-simulation at the returned height {h:.4f} gives {mx:.5f}/{mn:.5f}", clamped=clamp)
    for r in m._search.searchTracker:
        if abs(r[1] - max(r[2] - sp.max_EFT_allowable, sp.min_EFT_allowable - r[3])) > 1e-12:
            v("C12", "search_log_row_inconsistent", f"search log row {r} violates excess = max(max-upper, lower-min)")
            break
    # C12 / C19: file level (the output writer cannot handle horizons that are not whole years - IndexError in get_summary_text,
    # observation O9 in DESIGN.md; no summary exists then, so there is nothing to compare)
    if case.get("months", 24) % 12 != 0:
        return V, label
    d, files = physics.write_outputs(m)
    try:
        js = json.loads(files["SimulationSummary.json"])
        gs = js["ghe_system"]
        rows = list(csv.reader(io.StringIO(files["BoreFieldData.csv"])))[1:]
        sel = getattr(m._search, "selected_coordinates", None)
        if not (gs["number_of_boreholes"] == len(rows) == nbh) or (sel is not None and len(sel) != nbh):
            v("C12", "nbh_mismatch", f"summary says {gs['number_of_boreholes']} boreholes, BoreFieldData has {len(rows)} rows, the returned field has {nbh}, selected_coordinates {None if sel is None else len(sel)}")
        if abs(gs["total_drilling"]["value"] - gs["number_of_boreholes"] * gs["active_borehole_length"]["value"]) > 1e-9 * max(1.0, gs["total_drilling"]["value"]):
            v("C12", "total_drilling_inconsistent", f"total_drilling {gs['total_drilling']['value']} != {gs['number_of_boreholes']} x {gs['active_borehole_length']['value']}")
        if abs(gs["active_borehole_length"]["value"] - h) > 1e-12:
            v("C12", "summary_height_differs", f"summary height {gs['active_borehole_length']['value']} vs returned {h}")
        sr = js["simulation_results"]
        if abs(sr["max_hp_eft"]["value"] - mx) > TOL or abs(sr["min_hp_eft"]["value"] - mn) > TOL:
            v("C12", "stale_temperatures", f"summary max/min EFT {sr['max_hp_eft']['value']:.5f}/{sr['min_hp_eft']['value']:.5f}, re-simulation gives {mx:.5f}/{mn:.5f}", clamped=clamp, where="summary")
        for r in js["design_selection_search_log"]["data"]:
            if abs(r[1] - max(r[2] - sp.max_EFT_allowable, sp.min_EFT_allowable - r[3])) > 1e-12:
                v("C12", "search_log_row_inconsistent", f"summary search log row {r} violates excess = max(max-upper, lower-min)", where="summary")
                break
        txt = files["SimulationSummary.txt"]
        import re

        mt = re.search(r"NBH:\s+(\d+)", txt)
        if mt and int(mt.group(1)) != nbh:
            v("C12", "nbh_mismatch", f"text summary NBH {mt.group(1)} vs {nbh}", where="text")
        mt = re.search(r"Active Borehole Length, m:\s+(\d+)", txt)
        if mt and abs(int(mt.group(1)) - h) > 0.5 + 1e-9:
            v("C12", "summary_height_differs", f"text summary height {mt.group(1)} vs returned {h}", where="text")
        # C19 on the real run: bore field table = selected coordinates, loads echoed in order, g table rows strictly increasing
        if [[float(a), float(b_)] for a, b_ in rows] != [[x, y] for x, y in coords]:
            v("C19", "borefield_table_wrong", "BoreFieldData.csv rows differ from the returned coordinates")
        # ... and the field the search says it selected is that same field
        sel = getattr(m._search, "selected_coordinates", None)
        if sel is not None and [[float(a), float(b_)] for a, b_ in rows] != [[float(x), float(y)] for x, y in sel]:
            v("C19", "borefield_table_wrong", f"BoreFieldData.csv lists {len(rows)} boreholes, the search's selected_coordinates has {len(sel)}", where="selected_coordinates")
            v("C12", "nbh_mismatch", f"the files describe {len(rows)} boreholes, the search selected {len(sel)}", where="selected_coordinates")
        lrows = list(csv.reader(io.StringIO(files["Loadings.csv"])))[1:]
        loads = m._ground_loads
        if len(lrows) != 8760 or any(float(lrows[i][4]) != float(loads[i]) or int(lrows[i][3]) != i for i in range(0, 8760, 7)):
            v("C19", "loadings_table_wrong", "Loadings.csv does not echo the 8760 input loads in order")
        grows = list(csv.reader(io.StringIO(files["Gfunction.csv"])))[1:]
        xs = [float(r[0]) for r in grows]
        if any(xs[i + 1] <= xs[i] for i in range(len(xs) - 1)):
            v("C19", "gfunction_table_time_not_increasing", "Gfunction.csv time column is not strictly increasing")
    finally:
        physics.cleanup(d)
    return V, label


def conformance(case, obs):
    """replay the recorded query trace through engine A (fake physics that answers exactly the recorded queries, anything else is
    a miss) on the same candidate lists; returns None if identical, else a description of the first difference"""
    from vf import explore_search as X

    if case.get("narrow"):
        return "skipped"
    tab = [[q[0], q[2], q[3], q[4]] for q in obs["trace"]]
    X.init_worker()
    try:
        return _replay(case, obs, tab, X)
    finally:
        worlds.uninstall()
        X._MGR.clear()


def _replay(case, obs, tab, X):
    ca = {"method": case["method"], "flow": case.get("flow", "borehole"), "flow_rate": 0.3 if case.get("flow", "borehole") == "borehole" else 4.0,
          "cap": case.get("cap"), "cont": bool(case.get("cont")), "geo": None, "world": {"kind": "trace", "table": tab, "limits": "narrow"}}
    try:
        o2 = X.execute(ca)
    except worlds.ConformanceMiss as e:
        return f"replay asked a question the real search never asked: {e}"
    if o2["outcome"] != obs["outcome"]:
        return f"outcome {o2['outcome']} in the replay, {obs['outcome']} in the real run"
    q1 = [(q[0], round(q[2], 9)) for q in obs["trace"]]
    q2 = [(q[0], round(q[2], 9)) for q in o2["queries"]]
    if q1 != q2:
        k = next((i for i, (a, b) in enumerate(zip(q1, q2)) if a != b), min(len(q1), len(q2)))
        return f"query sequences differ at step {k}: real {q1[k] if k < len(q1) else None}, replay {q2[k] if k < len(q2) else None} (lengths {len(q1)}/{len(q2)})"
    if obs["outcome"] == "design":
        g = obs["m"]._search.ghe
        if worlds.field_key(g.gFunction.bore_locations) != o2["sel_key"] or float(g.bhe.b.H) != o2["H"]:
            return f"selection differs: real {len(g.gFunction.bore_locations)} bh @ {float(g.bhe.b.H)!r}, replay {o2['sel_nbh']} bh @ {o2['H']!r}"
    return None


def run_chunk(chunk, props):
    res = core.Result(evals=0)
    cases = [chunk] if "method" in chunk and "cases" not in chunk else chunk["cases"]
    for case in cases:
        obs = run_real(case)
        V, label = judge_real(case, obs)
        res["evals"] += 1
        res.outcome(label)
        if len(obs["trace"]) >= 5:
            res["nontrivial"] += 1
        # state graph: abstract state = (method, set of (nbh, height class, sign)) along the trace
        hmax, hmin = limits(case)
        sp = obs["m"]._simulation_parameters
        ans = set()
        cur = core.h64(["B", case["method"], []])
        st, tr = [cur], []
        for q in obs["trace"]:
            eq = max(q[3] - sp.max_EFT_allowable, sp.min_EFT_allowable - q[4])
            ans.add((q[1], "min" if q[2] == hmin else "max" if q[2] == hmax else "size", eq > 0))
            nxt = core.h64(["B", case["method"], sorted(ans)])
            tr.append((cur, nxt))
            st.append(nxt)
            cur = nxt
        res["states"] = list(set(res["states"]) | set(st))
        res["transitions"] = list(set(map(tuple, res["transitions"])) | set(tr))
        for p in props:
            for x in V.get(p, []):
                res["violations"].append(x)
        if chunk.get("conformance", True):
            diff = conformance(case, obs)
            if diff == "skipped":
                res.bump("conformance_skipped")
            elif diff is None:
                res.bump("traces_validated")
            else:
                raise core.HarnessError(f"conformance: engine A does not reproduce the real search for {case}: {diff}")
        if res["sample"] is None:
            res["sample"] = {"case": case, "outcome": label, "queries": [[q[5], q[1], round(q[2], 3), round(max(q[3] - sp.max_EFT_allowable, sp.min_EFT_allowable - q[4]), 4)] for q in obs["trace"]][:10]}
        obs["m"] = None
    return res


def product(tier, prop):
    """the engine-B slice of a property for a tier"""
    quick = tier == "quick"
    out = []
    methods = scenarios.METHODS
    if quick:
        pipes = ("single", "coaxial")
        for i, mth in enumerate(methods):
            for j, p in enumerate(pipes):
                fl = ("borehole", "system")[(i + j) % 2]
                out.append({"method": mth, "pipe": p, "flow": fl, "load": "office"})
            out.append({"method": mth, "pipe": "single", "flow": "borehole", "load": "negligible", "cont": True})
            out.append({"method": mth, "pipe": "double_parallel", "flow": "system", "load": "too_large", "cont": i % 2 == 0})
        out.append({"method": "nearsquare", "pipe": "single", "flow": "borehole", "load": "heating_first_day"})
        out.append({"method": "rectangle", "pipe": "double_series", "flow": "borehole", "load": "office", "cap": 8})
        out.append({"method": "nearsquare", "pipe": "single", "flow": "borehole", "load": "negligible", "cont": False})
        out.append({"method": "rowwise", "pipe": "single", "flow": "borehole", "load": "mirror", "narrow": True})
        out.append({"method": "nearsquare", "pipe": "single", "flow": "borehole", "load": "december_only", "months": 36})
        out.append({"method": "nearsquare", "pipe": "single", "flow": "borehole", "load": "too_large", "cont": True, "cap": 8})
        if prop == "C02":
            out = [c for c in out if c["load"] in ("negligible", "too_large") or c.get("cap")]
        elif prop == "C05":
            out = [c for c in out if c["load"] not in ("negligible", "too_large")]
    else:
        for mth in methods:
            for p in scenarios.PIPES:
                for fl in ("borehole", "system"):
                    for ld in ("office", "mirror", "balanced", "const_rej", "const_ext", "spiky", "heating_first_day", "december_only"):
                        for months in (24, 37):
                            if months == 37 and (p not in ("single",) or ld not in ("office", "spiky", "mirror")):
                                continue
                            out.append({"method": mth, "pipe": p, "flow": fl, "load": ld, "months": months})
                for ld in ("negligible", "too_large"):
                    for cont in (False, True):
                        for cap in (None, 8):
                            out.append({"method": mth, "pipe": p, "flow": "borehole", "load": ld, "cont": cont, "cap": cap})
            for ks in (1.2, 3.5):
                for ld in ("office", "mirror", "balanced"):
                    out.append({"method": mth, "pipe": "single", "flow": "borehole", "load": ld, "soil_k": ks})
            for p in ("single", "coaxial"):
                for ld in ("office", "mirror"):
                    out.append({"method": mth, "pipe": p, "flow": "borehole", "load": ld, "narrow": True})
                    out.append({"method": mth, "pipe": p, "flow": "system", "load": ld, "cap": 8, "cont": True})
    return out
