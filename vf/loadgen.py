"""Hourly load profiles (8760 h, W, extraction positive) built from per-month patterns, and an independent calendar.

A month pattern is a dict
  {"dir": "none"|"c"|"h"|"both", "cday": k, "hday": k, "shape": "1h"|"6h"|"30h", "base": 0|0.2, "pc": kW, "ph": kW}
with days given as one of "first","second","mid","penult","last"; optional "hh" / "ch": hour of the day (0..23) at which the heating /
cooling peak starts (default 2 / 10).
"""
from __future__ import annotations

import datetime as _dt

DAYS_IN_MONTH = [31, 28, 31, 30, 31, 30, 31, 31, 30, 31, 30, 31]  # non-leap, independent of the tool's table
DAYS_IN_MONTH_LEAP = [31, 29, 31, 30, 31, 30, 31, 31, 30, 31, 30, 31]
DAY_NAMES = ("first", "second", "mid", "penult", "last")
SHAPES = ("1h", "6h", "30h")


def month_start_hour(m0: int, dim=None) -> int:
    """0-based hour-of-year index at which calendar month m0 (0..11) starts"""
    return 24 * sum((dim or DAYS_IN_MONTH)[:m0])


def month_end_hours(n_months: int, dim=None):
    """cumulative hours at the end of simulated months 1..n (months repeat every 12)"""
    out, acc = [], 0
    for i in range(n_months):
        acc += 24 * (dim or DAYS_IN_MONTH)[i % 12]
        out.append(acc)
    return out


def _check_calendar():
    # the table above against datetime, once at import
    for m in range(12):
        d0 = _dt.date(2019, m + 1, 1)
        d1 = _dt.date(2019 + (m == 11), (m + 1) % 12 + 1, 1)
        assert (d1 - d0).days == DAYS_IN_MONTH[m]


_check_calendar()


def day_index(name: str, m0: int) -> int:
    nd = DAYS_IN_MONTH[m0]
    return {"first": 0, "second": 1, "mid": 14, "penult": nd - 2, "last": nd - 1}[name]


def _put(loads, start, length, value):
    n = len(loads)
    for h in range(start, start + length):
        loads[h % n] = value


def build_profile(patterns) -> list:
    """patterns: list of 12 month patterns -> 8760 hourly loads in W (extraction/heating positive, rejection negative)"""
    loads = [0.0] * 8760
    # base loads first
    for m0, p in enumerate(patterns):
        s = month_start_hour(m0)
        nh = 24 * DAYS_IN_MONTH[m0]
        b = p.get("base", 0)
        if not b or p["dir"] == "none":
            continue
        for h in range(nh):
            hod = h % 24
            if p["dir"] == "c":
                loads[s + h] = -b * p["pc"] * 1000.0
            elif p["dir"] == "h":
                loads[s + h] = b * p["ph"] * 1000.0
            else:
                loads[s + h] = (-b * p["pc"] if 8 <= hod < 20 else b * p["ph"]) * 1000.0
    # then the peaks (heating early in the day, cooling later; a 30 h plateau runs into the next day / month)
    for m0, p in enumerate(patterns):
        s = month_start_hour(m0)
        ln = {"1h": 1, "6h": 6, "24h": 24, "30h": 30}[p.get("shape", "1h")]
        if p["dir"] in ("h", "both"):
            d = day_index(p["hday"], m0)
            hl = ln if p["dir"] == "h" else min(ln, 6)  # ("24h" with hh / ch = 0: the load is held at its maximum through a whole day)
            _put(loads, s + 24 * d + p.get("hh", 2), hl, p["ph"] * 1000.0)
        if p["dir"] in ("c", "both"):
            d = day_index(p["cday"], m0)
            _put(loads, s + 24 * d + p.get("ch", 10), ln, -p["pc"] * 1000.0)
    return loads


def monthly_reference(loads, dim=None):
    """independent monthly statistics of an 8760-h (8784-h with the leap table) profile: per calendar month
    (rejection kWh, extraction kWh, peak rejection kW, peak extraction kW, 0-based day of first peak rejection / extraction)"""
    out = []
    dim = dim or DAYS_IN_MONTH
    for m0 in range(12):
        s = month_start_hour(m0, dim)
        seg = loads[s : s + 24 * dim[m0]]
        rej = [(-x / 1000.0) if x < 0 else 0.0 for x in seg]
        ext = [(x / 1000.0) if x >= 0 else 0.0 for x in seg]
        pr, pe = max(rej), max(ext)
        out.append({
            "rej_kwh": sum(rej), "ext_kwh": sum(ext), "peak_rej": pr, "peak_ext": pe,
            "day_rej": rej.index(pr) // 24, "day_ext": ext.index(pe) // 24,
            "hours": len(seg),
        })
    return out


def pattern_alphabet(pc=6.0, ph=5.0):
    """P0 alphabet of month patterns, simplest first"""
    pats = [{"dir": "none", "pc": pc, "ph": ph}]
    for base in (0, 0.2):
        for shape in SHAPES:
            for d in DAY_NAMES:
                pats.append({"dir": "c", "cday": d, "shape": shape, "base": base, "pc": pc, "ph": ph})
            for d in DAY_NAMES:
                pats.append({"dir": "h", "hday": d, "shape": shape, "base": base, "pc": pc, "ph": ph})
    for base in (0, 0.2):
        for shape in SHAPES:
            for dc in DAY_NAMES:
                for dh in DAY_NAMES:
                    pats.append({"dir": "both", "cday": dc, "hday": dh, "shape": shape, "base": base, "pc": pc, "ph": ph})
    return pats


BOUNDARY_PATTERNS_IDX = None


def boundary_patterns():
    """the ~30 patterns that touch month boundaries (first/last day, 30 h plateau) used for the 2-deviation family"""
    out = []
    for p in pattern_alphabet():
        days = [p.get("cday"), p.get("hday")]
        if p["dir"] == "none":
            out.append(p)
        elif p.get("base") == 0 and all(d in (None, "first", "last") for d in days) and p["shape"] in ("1h", "30h"):
            out.append(p)
    return out


def atlanta_like(scale=1.0):
    """smooth cooling-dominated office-like profile (independent of the repo's test data)"""
    import math

    loads = []
    for h in range(8760):
        doy = h // 24
        hod = h % 24
        season = math.cos(2 * math.pi * (doy - 200) / 365.0)  # +1 midsummer
        day = max(0.0, math.sin(math.pi * (hod - 6) / 14.0)) if 6 <= hod <= 20 else 0.0
        cooling = max(0.0, 0.3 + 0.7 * season) * (0.2 + 0.8 * day) * 60.0
        heating = max(0.0, -0.2 - 0.8 * season) * (0.5 + 0.5 * (1 - day)) * 40.0
        loads.append((heating - cooling) * 1000.0 * scale)
    return loads
