"""python -m vf.refsig '<json cfg>' : the plain 'set_design, find_design' signature of a configuration, computed in a brand-new
interpreter (nothing else has run in the process), printed as one JSON line."""
import json
import sys
import warnings


def main():
    warnings.filterwarnings("ignore")
    cfg = json.loads(sys.argv[1])
    from vf import core
    from vf.checks import c13

    core.assert_repo_import()
    m = c13.fresh(cfg)
    c13.set_design(m, cfg)
    from vf import physics

    e = physics.find(m)
    if e is not None:
        print(json.dumps({"error": f"{type(e).__name__}: {e}"}))
        return 0
    print("REFSIG " + json.dumps(c13.full_signature(m)))
    return 0


if __name__ == "__main__":
    sys.exit(main())
