"""python -m vf <property-id> [--tier quick|thorough] [--replay file]"""
import argparse
import importlib
import os
import sys
import traceback

from vf import core


def main(argv=None):
    ap = argparse.ArgumentParser(prog="check")
    ap.add_argument("prop")
    ap.add_argument("--tier", choices=["quick", "thorough"], default=None)
    ap.add_argument("--replay", default=None)
    ap.add_argument("--only", default=None, help="comma-separated family names (debugging aid; evidence says so)")
    a = ap.parse_args(argv)
    prop = a.prop.upper()
    tier = a.tier or os.environ.get("VERIF_TIER") or "quick"
    if tier not in ("quick", "thorough"):
        tier = "quick"
    try:
        seed = int(os.environ.get("VERIF_SEED", "0"))
    except ValueError:
        seed = 0
    modname = f"vf.checks.{prop.lower()}"
    try:
        core.assert_repo_import()
        mod = importlib.import_module(modname)
        if a.replay:
            return core.do_replay(prop, modname, a.replay)
        run = core.Run(prop, tier, seed, modname)
        only = set(a.only.split(",")) if a.only else None
        run.only = only  # families not named are skipped by Run.drive (debugging aid; the evidence says so and is marked not exhaustive)
        return mod.main(run, only) if only is not None else mod.main(run)
    except core.HarnessError as e:
        print(f"HARNESS-ERROR property={prop}: {e}")
        return 2
    except Exception as e:  # noqa: BLE001
        traceback.print_exc()
        print(f"HARNESS-ERROR property={prop}: {type(e).__name__}: {e}")
        return 2


if __name__ == "__main__":
    sys.exit(main())
