"""Builds real HybridLoad objects (real SingleUTube + RadialNumericalBH) for the C06/C07/C08 checks."""
from __future__ import annotations

import warnings

from vf import core

_CACHE = {}


def bhe_and_radial(params=None):
    """params: dict(H, k_s, rhocp_s, k_g, rb) -> (SingleUTube, RadialNumericalBH); cached per worker"""
    p = dict(H=100.0, k_s=2.0, rhocp_s=2343493.0, k_g=1.0, rb=0.075)
    p.update(params or {})
    key = core.canon(p)
    if key in _CACHE:
        return _CACHE[key]
    from ghedesigner.borehole import GHEBorehole
    from ghedesigner.borehole_heat_exchangers import SingleUTube
    from ghedesigner.media import GHEFluid, Grout, Pipe, Soil
    from ghedesigner.radial_numerical_borehole import RadialNumericalBH

    r_out, r_in, s = 0.04216 / 2, 0.03404 / 2, 0.01856
    pipe = Pipe(Pipe.place_pipes(s, r_out, 1), r_in, r_out, s, 1.0e-6, 0.4, 1542000.0)
    soil = Soil(p["k_s"], p["rhocp_s"], 18.3)
    grout = Grout(p["k_g"], 3901000.0)
    fluid = GHEFluid("water", 0.0)
    bh = GHEBorehole(p["H"], 2.0, p["rb"], x=0.0, y=0.0)
    bhe = SingleUTube(0.5, fluid, bh, pipe, grout, soil)
    rn = RadialNumericalBH(bhe)
    rn.calc_sts_g_functions(bhe)
    _CACHE[key] = (bhe, rn)
    return bhe, rn


def make_hybrid(loads, n_months, params=None, years=None, start_month=1, raw=False):
    """n_months = number of simulated months; with start_month s the tool's end_month is s + n_months - 1"""
    from ghedesigner.ground_loads import HybridLoad
    from ghedesigner.simulation import SimulationParameters

    bhe, rn = bhe_and_radial(params)
    sp = SimulationParameters(start_month, start_month + n_months - 1, 35.0, 5.0, 135.0, 60.0)
    with warnings.catch_warnings():
        warnings.simplefilter("ignore")
        return HybridLoad(loads if raw else list(loads), bhe, rn, sp, years=years or [2019])  # raw: the caller's own object, not a copy


def month_energies(hl, n_months, month_ends, first=0):
    """energy (kWh) of each simulated month of the hybrid sequence: signed sum of load x breakpoint difference between
    consecutive month-end breakpoints (position of a month end = last index whose hour equals it).  `month_ends` holds the
    cumulative month ends from the start of the year; simulated months are first .. n_months-1 (0-based).  Returns
    (list of energies, list of positions) or raises LookupError naming the month whose end has no breakpoint."""
    hour = [float(x) for x in hl.hour]
    load = [float(x) for x in hl.load]
    pos = []
    prev = 1  # hour[0] = 0, hour[1] = start of the simulation
    for m in range(first, n_months):
        idx = None
        for j in range(len(hour) - 1, prev, -1):
            if hour[j] == float(month_ends[m]):
                idx = j
                break
        if idx is None:
            raise LookupError(m + 1)
        pos.append(idx)
        prev = idx
    energies = []
    prev = 1
    for k in range(len(pos)):
        e = 0.0
        for j in range(prev + 1, pos[k] + 1):
            e += load[j] * (hour[j] - hour[j - 1])
        energies.append(e)
        prev = pos[k]
    return energies, pos
