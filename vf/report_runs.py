"""C12, reports in the presence of later calls on the same manager (engine R): (A) a setter called after the design and before the report
does not make the report inconsistent with the design it describes; (B) a report prepared for one design still describes that design when
it is read / written after another design was made with the same manager."""
from __future__ import annotations

import io
import json
import shutil
import tempfile
import warnings
from contextlib import redirect_stderr, redirect_stdout
from pathlib import Path

from vf import core, physics


def _summary_checks(res, case, js, sig, what):
    """the summary against the design it was prepared for (sig) and against itself"""
    nbh = js["ghe_system"]["number_of_boreholes"]
    h = js["ghe_system"]["active_borehole_length"]["value"]
    tot = js["ghe_system"]["total_drilling"]["value"]
    mx, mn = js["simulation_results"]["max_hp_eft"]["value"], js["simulation_results"]["min_hp_eft"]["value"]
    up, lo = js["simulation_parameters"]["maximum_allowable_hp_eft"]["value"], js["simulation_parameters"]["minimum_allowable_hp_eft"]["value"]

    def v(kind, msg, **a):
        res["violations"].append(core.viol(kind, case, msg=f"{what}: {msg}", engine="R", **a))

    if abs(tot - nbh * h) > 1e-9 * max(1.0, tot):
        v("total_drilling_inconsistent", f"total drilling {tot} is not {nbh} x {h}")
    h0, mx0, mn0 = float.fromhex(sig["H"]), float.fromhex(sig["max_eft"]), float.fromhex(sig["min_eft"])
    if nbh != sig["nbh"] or abs(h - h0) > 1e-9 or abs(mx - mx0) > 1e-9 or abs(mn - mn0) > 1e-9:
        v("report_describes_another_design", f"the summary reports {nbh} boreholes x {h:.4f} m with max/min EFT {mx:.4f}/{mn:.4f}; the design it was prepared for has "
          f"{sig['nbh']} x {h0:.4f} m, {mx0:.4f}/{mn0:.4f}", field="height" if abs(h - h0) > 1e-9 else "temperatures" if nbh == sig["nbh"] else "count")
    bad = [r for r in js["design_selection_search_log"]["data"] if abs(r[1] - max(r[2] - up, lo - r[3])) > 1e-9]
    if bad:
        v("search_log_row_inconsistent", f"{len(bad)} of {len(js['design_selection_search_log']['data'])} search-log rows violate excess = max(max EFT - upper, lower - min EFT) for the limits "
          f"{up} / {lo} printed in the same summary (first: {bad[0]})")
    if lo_h(js) <= h <= hi_h(js) and lo_h(js) < h < hi_h(js):
        ex = max(mx - up, lo - mn)
        if abs(ex) > 1e-3:
            v("reported_height_not_a_root", f"the reported height {h:.4f} m is inside the window but the reported temperatures have excess {ex:.4f} K against the reported limits {up} / {lo}")


def lo_h(js):
    return js["simulation_parameters"]["minimum_allowable_height"]["value"]


def hi_h(js):
    return js["simulation_parameters"]["maximum_allowable_height"]["value"]


def _write(results_obj):
    d = Path(tempfile.mkdtemp(prefix="vf-rep-"))
    try:
        with warnings.catch_warnings():
            warnings.simplefilter("ignore")
            with redirect_stdout(io.StringIO()), redirect_stderr(io.StringIO()):
                results_obj.write_all_output_files(d)
        return json.loads((d / "SimulationSummary.json").read_text())
    finally:
        shutil.rmtree(d, ignore_errors=True)


def run_case(case):
    res = core.Result(evals=0)
    kw = {"max_eft": case["limits"][0], "min_eft": case["limits"][1]} if case.get("limits") else {}
    m = physics.manager(case["method"], pipe=case.get("pipe", "single"), load=case["load"], months=12, **kw)
    e = physics.find(m)
    res["evals"] += 1
    if e is not None:
        res.bump("report_design_failed")
        res["states"], res["transitions"] = [], []
        return res
    sig = physics.signature(m)
    if case["kind"] == "plain_report":
        # limits that are not round numbers (90 F / 40 F): the report echoes them as given
        d, files = physics.write_outputs(m, tag="r")
        physics.cleanup(d)
        js = json.loads(files["SimulationSummary.json"])
        up, lo = js["simulation_parameters"]["maximum_allowable_hp_eft"]["value"], js["simulation_parameters"]["minimum_allowable_hp_eft"]["value"]
        if abs(up - case["limits"][0]) > 1e-12 or abs(lo - case["limits"][1]) > 1e-12:
            res["violations"].append(core.viol("reported_limits_differ_from_inputs", case, observed=[up, lo], expected=case["limits"], msg=f"the summary reports the limits {up} / {lo}, the design was made for {case['limits']}", engine="R"))
        _summary_checks(res, case, js, sig, "report of a design with limits that are not round numbers")
    elif case["kind"] == "setter_after_design":
        # the user tightens the limits for the NEXT study step, then writes the report of the design just made
        m.set_simulation_parameters(num_months=12, max_eft=30.0, min_eft=8.0, max_height=135.0, min_height=60.0)
        if case.get("also_borehole"):
            m.set_borehole(height=70.0, buried_depth=3.0, diameter=0.12)
        d, files = physics.write_outputs(m, tag="r")
        physics.cleanup(d)
        _summary_checks(res, case, json.loads(files["SimulationSummary.json"]), sig, "report written after set_simulation_parameters(30 / 8)")
    else:
        with warnings.catch_warnings():
            warnings.simplefilter("ignore")
            with redirect_stdout(io.StringIO()), redirect_stderr(io.StringIO()):
                m.prepare_results("verif", "notes", "vf", "first")
        first = m.results
        m.set_ground_loads_from_hourly_list([0.5 * x for x in physics.loads(case["load"])])
        m.set_design(flow_rate=0.3, flow_type_str="borehole")
        res["evals"] += 1
        physics.find(m)
        _summary_checks(res, case, _write(first), sig, "report of the first design, written after a second design on the same manager")
    res.outcome("report_histories")
    res["nontrivial"] += 1
    res["sample"] = dict(case)
    res["states"], res["transitions"] = [], []
    return res
