"""Independent temporal-superposition code (scalar loops, written for the oracles; shares no code with the tool)."""
from __future__ import annotations

from math import log, pi


def step_response_temperatures(q, hours, g, ts, k_s, rb):
    """q[0..N], hours[0..N] (q[0] = 0 at hours[0]); returns dT[n], n = 0..N:
    dT[n] = sum_{i=1..n} (q[i]-q[i-1]) * g(ln((hours[n]-hours[i-1])*3600/ts)) / (2 pi k_s) + q[n]*rb"""
    out = [0.0]
    for n in range(1, len(q)):
        acc = 0.0
        for i in range(1, n + 1):
            dq = q[i] - q[i - 1]
            if dq != 0.0:
                acc += dq * float(g(log((hours[n] - hours[i - 1]) * 3600.0 / ts)))
        out.append(acc / (2.0 * pi * k_s) + q[n] * rb)
    return out


def cullin_spitler_duration(window48, peak, avg, g, ts, k_s, rb):
    """Peak duration after Cullin & Spitler (2011) as the tool documents it: the time after which a constant load of
    (peak - avg) changes the fluid temperature as much as the peak-scaled two-day profile (q_i - avg)/peak*q_i does at its
    maximum.  Linear interpolation between whole hours."""
    q_pk = [0.0] + [peak - avg] * 48
    q_nm = [0.0] + [(x - avg) / peak * x for x in window48]
    # response factors for whole-hour lags 1..48 (one call of the short-time response per lag)
    lag = [0.0] + [float(g(log(k * 3600.0 / ts))) for k in range(1, 49)]

    def resp(q):
        out = [0.0]
        for n in range(1, 49):
            acc = 0.0
            for i in range(1, n + 1):
                dq = q[i] - q[i - 1]
                if dq != 0.0:
                    acc += dq * lag[n - i + 1]
            out.append(acc / (2.0 * pi * k_s) + q[n] * rb)
        return out

    t_pk = resp(q_pk)
    t_nm = resp(q_nm)
    v = max(t_nm)
    if not v > 0.0:
        return 1.0e-6
    for n in range(48):
        a, b = t_pk[n], t_pk[n + 1]
        if a <= v <= b and b > a:
            return n + (v - a) / (b - a)
    a, b = t_pk[47], t_pk[48]
    return 47 + (v - a) / (b - a)


def superposed_eft(q_w, t_hours, g, ts, k_s, h, nbh, rb, m_dot, cp, tg):
    """Documented simulation formula (C09): q_w[n] total field load in W at the step ending at t_hours[n] (n = 0..N-1).
    T_n = Tg + sum_i (q_i-q_{i-1}) g(ln((t_n-t_{i-1})*3600/ts)) / (2 pi k H N) + q_n R_b/(H N) - q_n/(2 m cp N)"""
    qs = [0.0] + [x / nbh for x in q_w]
    ts_ = [0.0] + list(t_hours)
    out = []
    for n in range(1, len(qs)):
        acc = 0.0
        for i in range(1, n + 1):
            dq = qs[i] - qs[i - 1]
            if dq != 0.0:
                acc += dq * float(g(log((ts_[n] - ts_[i - 1]) * 3600.0 / ts)))
        tb = tg + acc / (2.0 * pi * k_s * h)
        out.append(tb + qs[n] / h * rb - qs[n] / (2.0 * m_dot * cp))
    return out
