"""Independent fully implicit finite-volume solver for layered radial conduction around a borehole (reference for C10).

Same physical problem as the tool's short-time model (Xu & Spitler 2006 equivalent layers): fluid core with the thermal mass of
both pipe legs, a convection layer, pipe, grout, soil out to a fixed far field; unit heat input at the core.  Own mesh (refine x
cells per layer), own time step (dt / substeps), own tridiagonal solve (scipy.linalg.solve_banded on a pre-assembled matrix)."""
from __future__ import annotations

from math import log, pi, sqrt

import numpy as np
from scipy.linalg import solve_banded


def layers_from_inputs(r_b, r_p_in, r_p_out, k_s, rhocp_s, rhocp_g, rhocp_p, rhocp_f, resist_f_eff, resist_pg_eff, r_far=10.0):
    """equivalent layer radii and properties, from the raw inputs (own formulas)"""
    r_out_tube = sqrt(2.0) * r_p_out
    t_wall = r_p_out - r_p_in
    r_in_tube = r_out_tube - t_wall
    r_conv = r_in_tube - t_wall / 4.0
    r_fluid = r_conv - 0.75 * t_wall
    k_conv = log(r_in_tube / r_conv) / (2 * pi * resist_f_eff)
    k_pg = log(r_b / r_in_tube) / (2 * pi * resist_pg_eff)
    rhocp_fluid_eq = 2.0 * r_p_in ** 2 * rhocp_f / (r_conv ** 2 - r_fluid ** 2)
    return [
        (r_fluid, r_conv, 200.0, rhocp_fluid_eq, 3),
        (r_conv, r_in_tube, k_conv, 1.0, 1),
        (r_in_tube, r_out_tube, k_pg, rhocp_p, 4),
        (r_out_tube, r_b, k_pg, rhocp_g, 27),
        (r_b, r_far, k_s, rhocp_s, 500),
    ]


def solve(layers, n_steps, dt, refine=2, substeps=4, q=1.0, t0=20.0):
    """returns (T_core - t0, T_wall - t0) after n_steps*dt seconds; wall = temperature of the first soil cell"""
    r_in, r_out, k, rc = [], [], [], []
    wall_idx = 0
    for li, (a, b, kk, cc, n) in enumerate(layers):
        n *= refine
        edges = np.linspace(a, b, n + 1)
        r_in += list(edges[:-1])
        r_out += list(edges[1:])
        k += [kk] * n
        rc += [cc] * n
        if li < len(layers) - 1:
            wall_idx += n
    r_in, r_out, k, rc = map(np.array, (r_in, r_out, k, rc))
    r_c = 0.5 * (r_in + r_out)
    n = len(r_c)
    vol = pi * (r_out ** 2 - r_in ** 2)
    cap = rc * vol
    # conductance between neighbouring cell centres (two half-cell cylinder resistances in series)
    res_e = np.log(r_out[:-1] / r_c[:-1]) / (2 * pi * k[:-1]) + np.log(r_c[1:] / r_in[1:]) / (2 * pi * k[1:])
    cond = 1.0 / res_e
    h = dt / substeps
    ab = np.zeros((3, n))
    diag = cap / h
    diag[:-1] += cond
    diag[1:] += cond
    ab[1] = diag
    ab[0, 1:] = -cond
    ab[2, :-1] = -cond
    # fixed far-field cell
    ab[1, -1] = 1.0
    ab[2, -2] = -cond[-1]
    ab[0, -1] = -cond[-1]
    ab[2, -2] = 0.0 if False else ab[2, -2]
    # last row: T_n = t0  -> zero its sub-diagonal entry
    ab[2, n - 2] = 0.0
    T = np.full(n, t0)
    for _ in range(n_steps * substeps):
        rhs = cap / h * T
        rhs[0] += q
        rhs[-1] = t0
        T = solve_banded((1, 1), ab, rhs)
    return float(T[0] - t0), float(T[wall_idx] - t0)
