"""Reference verdict for an input file: every section satisfies its schema, with the five case-insensitive names
(design method, pipe arrangement, fluid, flow type, time step) upper-cased.  Own jsonschema calls; validate.py is not used."""
from __future__ import annotations

import copy
import json
from pathlib import Path

import jsonschema

from vf import core

SECTIONS = ("fluid", "grout", "soil", "pipe", "borehole", "simulation", "geometric_constraints", "design", "loads")
GEO = {"BIRECTANGLE": "geometric_bi_rectangle", "BIRECTANGLECONSTRAINED": "geometric_bi_rectangle_constrained",
       "BIZONEDRECTANGLE": "geometric_bi_zoned_rectangle", "NEARSQUARE": "geometric_near_square",
       "RECTANGLE": "geometric_rectangle", "ROWWISE": "geometric_rowwise"}
PIPE = {"SINGLEUTUBE": "pipe_single_double_u_tube", "DOUBLEUTUBESERIES": "pipe_single_double_u_tube",
        "DOUBLEUTUBEPARALLEL": "pipe_single_double_u_tube", "COAXIAL": "pipe_coaxial"}
_S = {}


def schema(name):
    if name not in _S:
        _S[name] = json.loads((core.REPO / "ghedesigner" / "schemas" / f"{name}.schema.json").read_text())
    return _S[name]


def _ok(name, inst):
    try:
        jsonschema.validate(instance=inst, schema=schema(name))
        return True
    except jsonschema.ValidationError:
        return False


def section_verdicts(instance):
    """dict section -> bool (True = satisfies its schema); 'structure' for the file structure"""
    inst = copy.deepcopy(instance)
    out = {"structure": _ok("file_structure", inst) if isinstance(inst, dict) else False}
    if not isinstance(inst, dict):
        return out

    def up(sec, key):
        s = inst.get(sec)
        if isinstance(s, dict) and key in s and isinstance(s[key], str):
            s[key] = s[key].upper()

    up("fluid", "fluid_name")
    up("pipe", "arrangement")
    up("simulation", "timestep")
    up("geometric_constraints", "method")
    up("design", "flow_type")
    for sec in SECTIONS:
        if sec not in inst:
            out[sec] = False
            continue
        s = inst[sec]
        if sec == "pipe":
            arr = s.get("arrangement") if isinstance(s, dict) else None
            out[sec] = isinstance(arr, str) and arr in PIPE and _ok(PIPE[arr], s)
        elif sec == "geometric_constraints":
            m = s.get("method") if isinstance(s, dict) else None
            out[sec] = isinstance(m, str) and m in GEO and _ok(GEO[m], s)
        else:
            out[sec] = _ok(sec, s)
    return out


def accepts(instance) -> bool:
    return all(section_verdicts(instance).values())
