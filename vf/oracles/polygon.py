"""Exact polygon predicates on integer (or rational) coordinates.  Independent of ghedesigner.shape."""
from __future__ import annotations

from fractions import Fraction
from math import sqrt


def cross(ox, oy, ax, ay, bx, by):
    return (ax - ox) * (by - oy) - (ay - oy) * (bx - ox)


def on_segment(px, py, ax, ay, bx, by) -> bool:
    """exact: P on closed segment AB"""
    if cross(ax, ay, bx, by, px, py) != 0:
        return False
    return min(ax, bx) <= px <= max(ax, bx) and min(ay, by) <= py <= max(ay, by)


def segments_intersect(a, b, c, d) -> bool:
    """exact: closed segments AB and CD share at least one point"""
    d1 = cross(c[0], c[1], d[0], d[1], a[0], a[1])
    d2 = cross(c[0], c[1], d[0], d[1], b[0], b[1])
    d3 = cross(a[0], a[1], b[0], b[1], c[0], c[1])
    d4 = cross(a[0], a[1], b[0], b[1], d[0], d[1])
    if ((d1 > 0 and d2 < 0) or (d1 < 0 and d2 > 0)) and ((d3 > 0 and d4 < 0) or (d3 < 0 and d4 > 0)):
        return True
    if d1 == 0 and on_segment(a[0], a[1], c[0], c[1], d[0], d[1]):
        return True
    if d2 == 0 and on_segment(b[0], b[1], c[0], c[1], d[0], d[1]):
        return True
    if d3 == 0 and on_segment(c[0], c[1], a[0], a[1], b[0], b[1]):
        return True
    if d4 == 0 and on_segment(d[0], d[1], a[0], a[1], b[0], b[1]):
        return True
    return False


def area2(poly) -> int:
    s = 0
    n = len(poly)
    for i in range(n):
        x1, y1 = poly[i]
        x2, y2 = poly[(i + 1) % n]
        s += x1 * y2 - x2 * y1
    return s


def is_simple(poly) -> bool:
    """Simple polygon: distinct vertices, non-zero area, adjacent edges meet only in their shared vertex,
    non-adjacent edges are disjoint.  Collinear consecutive vertices (a vertex inside a straight side) are allowed."""
    n = len(poly)
    if n < 3 or len(set(map(tuple, poly))) != n:
        return False
    if area2(poly) == 0:
        return False
    for i in range(n):
        a, b, c = poly[i], poly[(i + 1) % n], poly[(i + 2) % n]
        # adjacent edges AB, BC overlap iff collinear and C on the same side of B as A
        if cross(a[0], a[1], b[0], b[1], c[0], c[1]) == 0:
            if (a[0] - b[0]) * (c[0] - b[0]) + (a[1] - b[1]) * (c[1] - b[1]) > 0:
                return False
    for i in range(n):
        a, b = poly[i], poly[(i + 1) % n]
        for j in range(i + 2, n):
            if i == 0 and j == n - 1:
                continue
            c, d = poly[j], poly[(j + 1) % n]
            if segments_intersect(a, b, c, d):
                return False
    return True


def is_convex(poly) -> bool:
    n = len(poly)
    sgn = 0
    for i in range(n):
        a, b, c = poly[i], poly[(i + 1) % n], poly[(i + 2) % n]
        cr = cross(a[0], a[1], b[0], b[1], c[0], c[1])
        if cr != 0:
            s = 1 if cr > 0 else -1
            if sgn == 0:
                sgn = s
            elif s != sgn:
                return False
    return True


def classify(poly, px, py) -> int:
    """exact crossing-number classification: 1 inside, 0 on boundary, -1 outside (same codes as the tool)"""
    n = len(poly)
    inside = False
    for i in range(n):
        ax, ay = poly[i - 1]
        bx, by = poly[i]
        if on_segment(px, py, ax, ay, bx, by):
            return 0
        # half-open rule: edge counts if it straddles the horizontal line through P (ay <= py < by or by <= py < ay)
        if (ay <= py < by) or (by <= py < ay):
            # x coordinate of the edge at height py, compared with px, exactly
            # sign of (bx-ax)*(py-ay) - (px-ax)*(by-ay) relative to (by-ay)
            t = (bx - ax) * (py - ay) - (px - ax) * (by - ay)
            if by - ay < 0:
                t = -t
            if t > 0:  # intersection strictly to the right of P
                inside = not inside
    return 1 if inside else -1


def detour(poly, px, py) -> float:
    """min over edges of |PA|+|PB|-|AB| (the tool's documented on-edge metric), floating point"""
    best = float("inf")
    n = len(poly)
    for i in range(n):
        ax, ay = poly[i - 1]
        bx, by = poly[i]
        d = sqrt((px - ax) ** 2 + (py - ay) ** 2) + sqrt((px - bx) ** 2 + (py - by) ** 2) - sqrt(
            (ax - bx) ** 2 + (ay - by) ** 2
        )
        if d < best:
            best = d
    return best


def classify_frac(poly, px, py) -> int:
    fp = [(Fraction(x), Fraction(y)) for x, y in poly]
    return classify(fp, Fraction(px), Fraction(py))
