"""Analytical finite-line-source superposition (Claesson & Javed 2011; Cimmino & Bernier 2014), uniform heat transfer rate
boundary condition, equal borehole lengths H and buried depths D.  Written for the oracle; no pygfunction code is used."""
from __future__ import annotations

from math import erf, exp, pi, sqrt

from scipy.integrate import quad


def ierf(x: float) -> float:
    return x * erf(x) - (1.0 - exp(-x * x)) / sqrt(pi)


def h_pair(d: float, t: float, alpha: float, H: float, D: float) -> float:
    """segment-to-segment thermal response factor between two parallel vertical boreholes at distance d"""

    def f(s):
        y = 2 * ierf(H * s) + 2 * ierf((H + 2 * D) * s) - ierf((2 * H + 2 * D) * s) - ierf(2 * D * s)
        return exp(-d * d * s * s) / (s * s) * y

    lo = 1.0 / sqrt(4.0 * alpha * t)
    # the integrand decays like exp(-d^2 s^2); split the range for accuracy
    pts = [lo * k for k in (3.0, 10.0, 30.0, 100.0, 300.0)]
    total, a = 0.0, lo
    for b in pts:
        v, _ = quad(f, a, b, epsabs=0.0, epsrel=1e-12, limit=400)
        total += v
        a = b
    v, _ = quad(f, a, float("inf"), epsabs=1e-300, epsrel=1e-10, limit=400)
    total += v
    return total / (2.0 * H)


def g_function_uhtr(coords, times, alpha: float, H: float, D: float, rb: float):
    """g(t) = mean over boreholes i of sum_j h_ij(t), with d_ii = r_b"""
    n = len(coords)
    dist = {}
    for i in range(n):
        for j in range(n):
            d = rb if i == j else sqrt((coords[i][0] - coords[j][0]) ** 2 + (coords[i][1] - coords[j][1]) ** 2)
            k = round(d, 9)
            dist[k] = dist.get(k, 0) + 1
    out = []
    for t in times:
        s = 0.0
        for d, cnt in dist.items():
            s += cnt * h_pair(d, t, alpha, H, D)
        out.append(s / n)
    return out
