"""Engine A: answer-space explorer for the design searches (DESIGN.md section 3).

A *chunk* (what the pool sees) expands deterministically into many *executions*; one execution = one complete
GHEManager.find_design() on the real search code over a world (vf/worlds.py).  Oracles for C01/C02/C05/C12/C20 are
evaluated on the world, never read back from the object under test.
"""
from __future__ import annotations

import io
import itertools
import sys

from vf import core, scenarios, worlds
from vf.worlds import IRR, World, synth_field

HMIN, HMAX = 60.0, 135.0
LIMITS = {"narrow": (35.0, 5.0), "wide": (500.0, -500.0), "zero_min": (35.0, 0.0), "zero_max": (0.0, -35.0)}
TOL = 1.0e-3

KIND = {"nearsquare": "1d", "rectangle": "1d", "birectangle": "2d", "bizoned": "zd", "constrained": "zd", "rowwise": "rw"}
CAP_FAMILY = ("nearsquare", "rectangle", "birectangle", "bizoned")  # "near-square and rectangular-family searches"

_MGR = {}
_devnull = None


def init_worker():
    global _devnull
    worlds.install()
    _devnull = io.StringIO()


# ------------------------------------------------------------------ managers and domains

def manager_for(case):
    method, flow = case["method"], case.get("flow", "borehole")
    geo = case.get("geo")
    key = (method, flow, core.canon(geo))
    m = _MGR.get(key)
    if case.get("pre") is not None:
        m = None  # history family: always a fresh manager, configured through the public setters only
    if m is None:
        kw = {}
        if case.get("pre") is not None and "world" in case:
            # history family: the very first configuration of this manager is more lenient than the one that is finally designed for
            mx0, mn0 = LIMITS[case["world"].get("limits", "narrow")]
            kw = {"max_eft": mx0 + 9.0, "min_eft": mn0 - 9.0}
        m = scenarios.build_manager(method, flow=flow, flow_rate=case.get("flow_rate", 0.5), geo=geo, hmax=HMAX, hmin=HMIN, **kw)
        if case.get("pre") is None:
            _MGR[key] = m
    mxa, mna = LIMITS[case["world"].get("limits", "narrow")] if "world" in case else LIMITS["narrow"]
    if case.get("pre") is not None:
        # earlier use of the same manager: configure, design, run once, then reconfigure with the public setters and design again
        pre = case["pre"]
        # the earlier configuration has other temperature limits and another horizon (every argument of the second call differs from the first)
        # (unless only the design call is repeated below: then the parameters are set once and must already be the final ones)
        only_design_again = (pre.get("cap"), bool(pre.get("cont"))) == (case.get("cap"), bool(case.get("cont"))) and pre.get("flow", flow) != flow
        off = 0.0 if only_design_again else 9.0
        m.set_simulation_parameters(num_months=24 if only_design_again else 36, max_eft=mxa + off, min_eft=mna - off, max_height=HMAX, min_height=HMIN, max_boreholes=pre.get("cap"),
                                    continue_if_design_unmet=bool(pre.get("cont", False)))
        m.set_design(flow_rate=pre.get("flow_rate", case.get("flow_rate", 0.5)), flow_type_str=pre.get("flow", flow))
        _inject(m, case)
        worlds.begin(World(case["world"], HMIN, HMAX, mxa, mna))
        so = sys.stdout
        sys.stdout = io.StringIO()
        try:
            try:
                m.find_design()
            except ValueError:
                pass
        finally:
            sys.stdout = so
            worlds.end()
        if (pre.get("cap"), bool(pre.get("cont"))) == (case.get("cap"), bool(case.get("cont"))) and pre.get("flow", flow) != flow:
            pass  # only the design call is repeated (other flow specification), nothing else is touched in between
        elif case.get("cap") is None and not case.get("cont"):
            m.set_simulation_parameters(num_months=24, max_eft=mxa, min_eft=mna, max_height=HMAX, min_height=HMIN)  # defaults, as a user would
        else:
            m.set_simulation_parameters(num_months=24, max_eft=mxa, min_eft=mna, max_height=HMAX, min_height=HMIN, max_boreholes=case.get("cap"),
                                        continue_if_design_unmet=bool(case.get("cont", False)))
        m.set_design(flow_rate=case.get("flow_rate", 0.5), flow_type_str=flow)
        _inject(m, case)
        return m
    sp = m._simulation_parameters
    sp.max_boreholes = case.get("cap")
    sp.max_EFT_allowable, sp.min_EFT_allowable = mxa, mna
    sp.continue_if_design_unmet = bool(case.get("cont", False))
    m._borehole.H = 96.0
    _inject(m, case)
    return m


def _inject(m, case):
    method = case["method"]
    if case.get("load_years"):
        m._design.load_years = list(case["load_years"])  # as Design*(..., load_years=[...]) would hold them
    else:
        m._design.load_years = [2019]
    syn = case.get("synthetic")
    d = m._design
    if syn is not None:
        lists = [[synth_field(k if KIND[method] != "1d" else 0, c) for c in counts] for k, counts in enumerate(syn, start=1)]
        descs = [[f"L{k}C{c}" for c in counts] for k, counts in enumerate(syn, start=1)]
        if KIND[method] == "1d":
            d.coordinates_domain, d.fieldDescriptors = lists[0], descs[0]
        else:
            d.coordinates_domain_nested, d.fieldDescriptors = lists, descs


def domain_lists(m, method):
    d = m._design
    if KIND[method] == "1d":
        return [list(d.coordinates_domain)]
    return [list(x) for x in d.coordinates_domain_nested]


# ------------------------------------------------------------------ one execution

_LAST = {}


def execute_domain_only(case):
    """family A8: only the exception type matters (C02): building the design and searching must end in a design or a ValueError"""
    world = World(case["world"], HMIN, HMAX, *LIMITS[case["world"].get("limits", "narrow")])
    log = worlds.begin(world)
    out, exc = "design", None
    so = sys.stdout
    sys.stdout = io.StringIO()
    try:
        try:
            m = scenarios.build_manager(case["method"], geo=case["geo"], hmax=HMAX, hmin=HMIN, cont=bool(case.get("cont")),
                                        max_eft=world.max_allow, min_eft=world.min_allow)
            m.find_design()
        except ValueError as e:
            out, exc = "ValueError", str(e)
        except core.HarnessError:
            raise
        except BaseException as e:  # noqa: BLE001
            out, exc = f"exc:{type(e).__name__}", str(e)
    finally:
        sys.stdout = so
        worlds.end()
    return {"outcome": out, "exc": exc, "queries": log.queries, "ghe_inits": [], "gfunc_calls": [], "wlists": [], "world": world}


def execute(case):
    if case.get("domain_only"):
        return execute_domain_only(case)
    m = manager_for(case)
    _LAST["m"] = m
    method = case["method"]
    lists = domain_lists(m, method) if KIND[method] != "rw" else []
    mxa, mna = LIMITS[case["world"].get("limits", "narrow")]
    world = World(case["world"], HMIN, HMAX, mxa, mna)
    log = worlds.begin(world)
    out, exc = "design", None
    so = sys.stdout
    sys.stdout = _devnull if _devnull is not None else io.StringIO()
    design_level = {}
    d_ = m._design
    real_fd = d_.find_design

    def fd_spy(*a, **k):
        # what the design-level API hands back (Design*.find_design() -> search object), before the manager sizes it again
        srch = real_fd(*a, **k)
        try:
            g_ = srch.ghe
            design_level.update(H=float(g_.bhe.b.H), coords=[list(map(float, p)) for p in g_.gFunction.bore_locations],
                                hp_max=float(max(g_.hp_eft)) if len(g_.hp_eft) else None, hp_min=float(min(g_.hp_eft)) if len(g_.hp_eft) else None)
        except Exception:  # noqa: BLE001
            pass
        return srch

    d_.find_design = fd_spy
    try:
        try:
            m.find_design()
        except ValueError as e:
            out, exc = "ValueError", str(e)
        except core.HarnessError:
            raise
        except BaseException as e:  # noqa: BLE001
            out, exc = f"exc:{type(e).__name__}", str(e)
    finally:
        try:
            del d_.find_design
        except AttributeError:
            pass
        sys.stdout = so
        if _devnull is not None:
            _devnull.seek(0)
            _devnull.truncate(0)
        worlds.end()
    obs = {"outcome": out, "exc": exc, "queries": log.queries, "ghe_inits": log.ghe_inits, "gfunc_calls": log.gfunc_calls,
           "gheights": log.gheights, "load_years": log.load_years, "design_load_years": list(getattr(m._design, "load_years", []) or []),
           "design_level": design_level}
    if out == "design":
        s = m._search
        ghe = s.ghe
        coords = ghe.gFunction.bore_locations
        obs.update(
            sel_key=worlds.field_key(coords),
            sel_coords=[list(map(float, p)) for p in coords],
            sel_nbh=len(coords),
            ghe_nbh=ghe.nbh,
            H=float(ghe.bhe.b.H),
            hp_max=float(max(ghe.hp_eft)) if len(ghe.hp_eft) else None,
            hp_min=float(min(ghe.hp_eft)) if len(ghe.hp_eft) else None,
            tracker=[list(r) for r in s.searchTracker],
            selected_coordinates_len=len(s.selected_coordinates) if getattr(s, "selected_coordinates", None) is not None else None,
        )
    # world-side view of the candidate lists
    wl = []
    for lst in (lists if world.kind != "trace" else []):
        wl.append([(worlds.field_key(c), len(c), world.excess(c, HMAX), world.excess(c, HMIN)) for c in lst])
    obs["wlists"] = wl
    obs["world"] = world
    return obs


# ------------------------------------------------------------------ oracles

def _allowed(lst, cap, strict):
    if cap is None:
        return list(range(len(lst)))
    return [i for i, f in enumerate(lst) if (f[1] < cap if strict else f[1] <= cap)]


def classify_world(case, obs):
    """Facts about the world that the oracles need (all computed from the world, not the tool)."""
    method, cap = case["method"], case.get("cap")
    wl = obs["wlists"]
    allc = [f for lst in wl for f in lst]
    head = wl[0][0]
    too_small = head[3] < 0  # smallest candidate feasible even at min height
    lt = [f for f in allc if cap is None or f[1] < cap]
    le = [f for f in allc if cap is None or f[1] <= cap]
    too_large_lt = all(f[2] > 0 for f in lt) if lt else True
    too_large_le = all(f[2] > 0 for f in le) if le else True
    mono_lists = all(all(lst[i][2] > 0 or lst[i + 1][2] < 0 for i in range(len(lst) - 1)) for lst in wl)
    mx = max((f[1] for f in lt), default=None)
    largest_lt_fails = all(f[2] > 0 for f in lt if f[1] == mx) if lt else True
    return dict(too_small=too_small, too_large_lt=too_large_lt, too_large_le=too_large_le, lt=lt, le=le,
                mono_lists=mono_lists, head=head, allc=allc, largest_lt_fails=largest_lt_fails)


def sel_positions(obs):
    pos = []
    for k, lst in enumerate(obs["wlists"]):
        for j, f in enumerate(lst):
            if f[0] == obs["sel_key"]:
                pos.append((k, j))
    return pos


def is_escape(case, obs, wc):
    """The returned design is the documented 'continue if design unmet' fallback, and the fallback was legitimate."""
    if not case.get("cont") or obs["outcome"] != "design":
        return None
    if wc["too_small"] and obs["sel_key"] == wc["head"][0] and obs["H"] == HMIN:
        return "fallback_smallest"
    # a candidate at max height that fails there, in a world whose largest allowed candidate fails at max height
    # (which candidate is returned is C02's business, not C01's).  Nested searches with a cap only look at lists whose
    # last field is below the cap, and the bi-zoned list is not sorted by count, so "last index below the cap" is not the
    # largest allowed field there: for the 2-D / zoned searches with a cap any failing field at max height under
    # continue=True counts as the escape (observation O3 / finding F14 in DESIGN.md).
    if obs["H"] == HMAX and obs["world"].excess(obs["sel_coords"], HMAX) > 0:
        if wc["largest_lt_fails"] or (KIND[case["method"]] != "1d" and case.get("cap") is not None):
            return "fallback_largest"
    return None


def judge(case, obs):
    """Returns {property_id: [violation,...]} and an outcome label."""
    method = case["method"]
    kind = KIND[method]
    cap, cont = case.get("cap"), bool(case.get("cont"))
    world = obs["world"]
    V = {p: [] for p in ("C01", "C02", "C05", "C12", "C20")}
    if case.get("domain_only"):
        out = obs["outcome"]
        if out.startswith("exc:"):
            V["C02"].append(core.viol("wrong_exception_type", case, observed=out, expected="design or ValueError",
                                      msg=f"{method} on {case['geo']}: {out[4:]}: {obs['exc']} (a spacing window that admits no whole number of rows must end in ValueError)",
                                      method=method, exc=out[4:], empty_window=True))
        return V, ("empty_or_narrow_window_" + ("error" if out != "design" else "design"))
    if kind == "rw":
        return judge_rowwise(case, obs, V)
    wc = classify_world(case, obs)
    out = obs["outcome"]
    label = out

    def v(prop, kindname, msg, observed=None, expected=None, **attrs):
        V[prop].append(core.viol(kindname, case, observed=observed, expected=expected, msg=msg, method=method, **attrs))

    # ---- C01 (inputs of every evaluation): the long-time g-function of a one-curve evaluation must be the one computed for the
    # height that is simulated, and every GHE must be built for the design's load years
    for hs, hsim in obs.get("gheights", []):
        if len(hs) == 1 and abs(hs[0] - hsim) > 1e-9:
            v("C01", "g_function_for_another_height", f"{method}: a candidate was simulated at {hsim} m with the g-function computed for {hs[0]} m",
              observed=list(hs), expected=hsim)
            break
        if len(hs) > 1 and not (min(hs) - 1e-9 <= hsim <= max(hs) + 1e-9):
            v("C01", "g_function_for_another_height", f"{method}: simulated at {hsim} m outside the heights {hs} the g-functions were computed for")
            break
    dly = obs.get("design_load_years")
    if dly:
        for ly in obs.get("load_years", []):
            ly = [2019] if ly is None else ly  # an exchanger built without the keyword falls back to the default year
            if ly != dly:
                v("C01", "load_years_not_passed_on", f"{method}: the design holds load_years={dly} but a GHE was built with load_years={ly}", observed=ly, expected=dly)
                break
    # ---- C02: exception type
    if out.startswith("exc:"):
        v("C02", "wrong_exception_type", f"{method}: find_design raised {out[4:]}: {obs['exc']}", observed=out,
          expected="design or ValueError", exc=out[4:])
        return V, label
    if out == "ValueError":
        # an error is expected when nothing fits (too large) or everything fits at min height (too small), continue off
        if cont and (wc["too_large_le"] or wc["too_small"]) and method in CAP_FAMILY:
            v("C02", "error_despite_continue", f"{method}: continue_if_design_unmet=True but the run ended with "
              f"ValueError({obs['exc']!r}) in a world that is {'too small' if wc['too_small'] else 'too large'}",
              observed="ValueError", expected="fallback design", msgtext=obs["exc"][:40],
              world_class="too_small" if wc["too_small"] else "too_large")
        elif ((not wc["too_small"]) and (not wc["too_large_lt"]) and wc["mono_lists"] and _outer_mono(obs)
              and (kind == "1d" or (kind == "2d" and cap is None))):
            v("C05", "error_although_feasible", f"{method}: ValueError({obs['exc']!r}) although a candidate below the cap "
              f"meets the limits at max height in a monotone world", observed="ValueError", expected="design")
        label = "ValueError"
        return V, label

    # ---- a design came back
    H, nbh = obs["H"], obs["sel_nbh"]
    e_ret = world.excess(obs["sel_coords"], H)
    esc = is_escape(case, obs, wc)
    label = esc or "design"
    # C02 height bounds / cap
    if not (HMIN <= H <= HMAX):
        v("C02", "height_out_of_bounds", f"{method}: returned height {H} outside [{HMIN},{HMAX}]", observed=H)
    if cap is not None and method in CAP_FAMILY and nbh > cap:
        v("C02", "cap_exceeded", f"{method}: {nbh} boreholes returned with max_boreholes={cap}", observed=nbh, expected=cap)
    if method in CAP_FAMILY:
        if wc["too_large_le"]:
            if not cont:
                v("C02", "design_instead_of_error", f"{method}: no candidate within the cap meets the limits at max height, "
                  f"continue=False, yet a design ({nbh} bh @ {H} m) was returned", observed=[nbh, H], expected="ValueError",
                  world_class="too_large")
            else:
                le_max = max(f[1] for f in wc["lt"]) if wc["lt"] else None
                ok = H == HMAX and (le_max is None or nbh >= le_max) and (cap is None or nbh <= cap)
                if not ok:
                    v("C02", "wrong_fallback_largest", f"{method}: loads too large + continue: expected the largest allowed "
                      f"candidate ({le_max} bh) at max height, got {nbh} bh @ {H} m", observed=[nbh, H], expected=[le_max, HMAX],
                      nested=kind != "1d", capped=cap is not None)
        elif wc["too_small"]:
            ok = obs["sel_key"] == wc["head"][0] and H == HMIN
            if cont and not ok:
                v("C02", "wrong_fallback_smallest", f"{method}: loads too small + continue: expected the smallest candidate at "
                  f"min height, got {nbh} bh @ {H} m", observed=[nbh, H], expected=[wc['head'][1], HMIN])
            if not cont and not ok:
                # neither an error nor the documented smallest@min fallback
                v("C02", "design_instead_of_error", f"{method}: smallest candidate meets the limits at min height, "
                  f"continue=False, yet {nbh} bh @ {H} m was returned", observed=[nbh, H], expected="ValueError",
                  world_class="too_small")
    # ---- C01 feasibility of the returned design
    if esc is None and e_ret > TOL:
        v("C01", "returned_design_infeasible", f"{method}: returned {nbh} bh @ {H:.6f} m has excess {e_ret:.6g} K > 1e-3",
          observed=e_ret, expected="<= 1e-3", clamped=("min" if H == HMIN else "max" if H == HMAX else "no"))
    # ---- C05
    if esc is None and method != "rowwise":
        if HMIN < H < HMAX and abs(e_ret) > TOL:
            v("C05", "height_not_a_root", f"{method}: returned height {H:.6f} is inside the window but excess there is "
              f"{e_ret:.6g} K", observed=e_ret, expected="|excess| <= 1e-3")
        if H == HMIN and e_ret > TOL:
            pass  # C01's business
        if H == HMAX and e_ret < -TOL:
            v("C05", "oversized_clamp_max", f"{method}: height clamped at max although excess there is {e_ret:.6g} K (a root "
              f"exists below)", observed=e_ret)
        if H == HMIN and e_ret < -TOL and False:
            pass  # legitimately over-satisfied: clamped at min
        # (2) not more drilling than any candidate the search evaluated as feasible at max height
        tot = nbh * H
        for q in obs["queries"]:
            if q[2] == HMAX and q[3] < 0 and tot > q[1] * HMAX * (1 + 1e-12):
                in_tracker = any(r[2] == q[4] and r[3] == q[5] for r in obs["tracker"])
                v("C05", "more_drilling_than_evaluated_feasible", f"{method}: returned {nbh} x {H:.3f} = {tot:.1f} m but the "
                  f"search evaluated field {q[6]} ({q[1]} bh) as feasible at max height = {q[1] * HMAX:.1f} m",
                  observed=tot, expected=q[1] * HMAX, logged=in_tracker, monotone=wc["mono_lists"] and _outer_mono(obs))
                break
        # (3) first feasible candidate, predecessor evaluated and failing (monotone worlds, 1-D and bi-rectangle)
        if (kind == "1d" or (kind == "2d" and cap is None)) and wc["mono_lists"] and _outer_mono(obs) and not wc["too_small"]:
            exp = _expected_selection(case, obs)
            if exp is not None:
                ok_keys, preds = exp
                if obs["sel_key"] not in ok_keys:
                    v("C05", "not_first_feasible", f"{method}: monotone world, selected {nbh} bh but the first feasible "
                      f"candidate below the cap is a different field", observed=obs["sel_key"], expected=sorted(ok_keys))
                else:
                    pk = preds.get(obs["sel_key"])
                    if pk is not None and not any(q[0] == pk and q[2] == HMAX and q[3] > 0 for q in obs["queries"]):
                        v("C05", "predecessor_not_evaluated", f"{method}: the candidate immediately preceding the selected "
                          f"one was not evaluated at max height", observed=None, expected=pk)
    # ---- C12 state-level consistency
    if obs["hp_max"] is None:
        v("C12", "no_temperatures", f"{method}: hp_eft empty after find_design")
    else:
        mx, mn = world.answer(obs["sel_coords"], H)
        if abs(obs["hp_max"] - mx) > TOL or abs(obs["hp_min"] - mn) > TOL:
            v("C12", "stale_temperatures", f"{method}: reported max/min EFT {obs['hp_max']:.6f}/{obs['hp_min']:.6f} but "
              f"simulating the returned field at the returned height {H:.4f} gives {mx:.6f}/{mn:.6f}",
              observed=[obs["hp_max"], obs["hp_min"]], expected=[mx, mn],
              clamped=("min" if H == HMIN else "max" if H == HMAX else "no"))
    dl = obs.get("design_level") or {}
    if dl.get("hp_max") is not None and world.kind != "trace":
        # the exchanger the design-level API returns: if it carries temperatures, they are those of its own field at its own height
        mx_, mn_ = world.answer(dl["coords"], dl["H"])
        if abs(dl["hp_max"] - mx_) > TOL or abs(dl["hp_min"] - mn_) > TOL:
            v("C12", "stale_temperatures", f"{method}: the exchanger returned by the design object's find_design() reports max/min EFT {dl['hp_max']:.6f}/{dl['hp_min']:.6f} "
              f"at {dl['H']:.4f} m; simulating its field at that height gives {mx_:.6f}/{mn_:.6f}", observed=[dl["hp_max"], dl["hp_min"]], expected=[mx_, mn_],
              clamped="design-level")
        # ... and if it was sized to a height inside the window, that height is a root of ITS field's excess (C05)
        if KIND[method] == "zd" and HMIN < dl["H"] < HMAX:
            e_dl = world.excess(dl["coords"], dl["H"])
            if abs(e_dl) > TOL:
                v("C05", "height_not_a_root", f"{method}: the exchanger returned by the design object's find_design() has {len(dl['coords'])} boreholes at {dl['H']:.6f} m (inside the window), "
                  f"where its excess is {e_dl:.6g} K", observed=e_dl, expected="|excess| <= 1e-3", where="design-level")
    if obs["ghe_nbh"] != nbh:
        v("C12", "nbh_mismatch", f"{method}: ghe.nbh={obs['ghe_nbh']} but {nbh} coordinates")
    if obs.get("selected_coordinates_len") is not None and obs["selected_coordinates_len"] != nbh:
        v("C12", "nbh_mismatch", f"{method}: the search reports {obs['selected_coordinates_len']} selected coordinates, the sized GHE has {nbh}", where="selected_coordinates")
    qi = 0
    for r in obs["tracker"]:
        if abs(r[1] - max(r[2] - world.max_allow, world.min_allow - r[3])) > 1e-12:
            v("C12", "search_log_row_inconsistent", f"{method}: search log row {r} violates excess=max(max-upper, lower-min)")
            break
        while qi < len(obs["queries"]) and not (obs["queries"][qi][4] == r[2] and obs["queries"][qi][5] == r[3]):
            qi += 1
        if qi == len(obs["queries"]):
            v("C12", "search_log_row_not_simulated", f"{method}: search log row {r} matches no simulation that was run (every row must be the "
              f"result of its own simulation, in the order the simulations were run)")
            v("C05", "search_log_row_not_simulated", f"{method}: search log row {r} is not the result of a simulation of its own: the excess the "
              f"selection relies on was not computed for that candidate")
            break
        qi += 1  # one row, one simulation
    _judge_flows(case, obs, v, method)
    return V, label


def _judge_flows(case, obs, v, method):
    # ---- C20: with a system flow the per-borehole flow seen by every GHE is V*rho/(1000 nbh)
    if case.get("flow") == "system":
        rho = _LAST["m"]._fluid.rho
        vsys = case.get("flow_rate", 0.5)
        for n_, vs, mf in obs["ghe_inits"]:
            if abs(vs - vsys) > 1e-12 * vsys or abs(mf - vsys / n_ / 1000.0 * rho) > 1e-12 * mf:
                v("C20", "system_flow_split_wrong", f"{method}: GHE with {n_} bh built with V_sys={vs}, m_bh={mf}; expected "
                  f"{vsys}, {vsys / n_ / 1000.0 * rho}", observed=[vs, mf])
                break
        # ... and so is the flow the g-functions of every candidate are computed with
        for n_, _hs, mf in obs["gfunc_calls"]:
            want = vsys / n_ / 1000.0 * rho
            if abs(mf - want) > 1e-12 * want:
                v("C20", "g_function_flow_wrong", f"{method}: g-functions of a {n_}-borehole candidate were computed with {mf} kg/s per borehole; the system flow {vsys} L/s "
                  f"over {n_} boreholes is {want}", observed=mf, expected=want, spec="system")
                break
    elif case.get("flow", "borehole") == "borehole":
        rho = _LAST["m"]._fluid.rho
        vb = case.get("flow_rate", 0.5)
        for n_, _hs, mf in obs["gfunc_calls"]:
            if abs(mf - vb / 1000.0 * rho) > 1e-12 * mf:
                v("C20", "g_function_flow_wrong", f"{method}: g-functions of a {n_}-borehole candidate were computed with {mf} kg/s per borehole; the per-borehole flow is "
                  f"{vb / 1000.0 * rho}", observed=mf, expected=vb / 1000.0 * rho, spec="borehole")
                break
        for n_, vs, mf in obs["ghe_inits"]:
            if abs(vs - vb * n_) > 1e-12 * vs or abs(mf - vb / 1000.0 * rho) > 1e-12 * mf:
                v("C20", "borehole_flow_split_wrong", f"{method}: GHE with {n_} bh built with V_sys={vs}, m_bh={mf}",
                  observed=[vs, mf])
                break


def judge_rowwise(case, obs, V):
    """RowWise: C01 (feasible unless the documented fallback), C02 (height bounds, exception type), C12 (state level)."""
    method, cont = case["method"], bool(case.get("cont"))
    world = obs["world"]
    out = obs["outcome"]

    def v(prop, kindname, msg, observed=None, expected=None, **attrs):
        V[prop].append(core.viol(kindname, case, observed=observed, expected=expected, msg=msg, method=method, **attrs))

    if out.startswith("exc:"):
        v("C02", "wrong_exception_type", f"rowwise: find_design raised {out[4:]}: {obs['exc']}", observed=out,
          expected="design or ValueError", exc=out[4:])
        return V, out
    if out == "ValueError":
        return V, out
    H, nbh = obs["H"], obs["sel_nbh"]
    e_ret = world.excess(obs["sel_coords"], H)
    q0 = obs["queries"][0] if obs["queries"] else None
    densest_fails = bool(q0 and q0[2] == HMAX and q0[3] > 0)
    esc = "fallback_largest" if (cont and H == HMAX and e_ret > 0 and densest_fails) else None
    label = esc or "design"
    if not (HMIN <= H <= HMAX):
        v("C02", "height_out_of_bounds", f"rowwise: returned height {H} outside [{HMIN},{HMAX}]", observed=H)
    if esc is None and e_ret > TOL:
        v("C01", "returned_design_infeasible", f"rowwise: returned {nbh} bh @ {H:.6f} m has excess {e_ret:.6g} K > 1e-3",
          observed=e_ret, expected="<= 1e-3", clamped=("min" if H == HMIN else "max" if H == HMAX else "no"))
    if obs["hp_max"] is None:
        v("C12", "no_temperatures", "rowwise: hp_eft empty after find_design")
    else:
        mx, mn = world.answer(obs["sel_coords"], H)
        if abs(obs["hp_max"] - mx) > TOL or abs(obs["hp_min"] - mn) > TOL:
            v("C12", "stale_temperatures", f"rowwise: reported max/min EFT {obs['hp_max']:.6f}/{obs['hp_min']:.6f} but "
              f"simulating the returned field at the returned height {H:.4f} gives {mx:.6f}/{mn:.6f}",
              observed=[obs["hp_max"], obs["hp_min"]], expected=[mx, mn],
              clamped=("min" if H == HMIN else "max" if H == HMAX else "no"))
    if obs["ghe_nbh"] != nbh:
        v("C12", "nbh_mismatch", f"rowwise: ghe.nbh={obs['ghe_nbh']} but {nbh} coordinates")
    if obs.get("selected_coordinates_len") is not None and obs["selected_coordinates_len"] != nbh:
        v("C12", "nbh_mismatch", f"rowwise: selected_coordinates has {obs['selected_coordinates_len']} rows, ghe has {nbh}")
    for r in obs["tracker"]:
        if abs(r[1] - max(r[2] - world.max_allow, world.min_allow - r[3])) > 1e-12:
            v("C12", "search_log_row_inconsistent", f"rowwise: search log row {r} violates excess=max(max-upper, lower-min)")
            break
    _judge_flows(case, obs, v, method)
    return V, label


def _outer_mono(obs):
    """bi-rectangle: the outer list [head, last of each list] has a monotone sign pattern at max height"""
    wl = obs["wlists"]
    if len(wl) == 1:
        return True
    outer = [wl[0][0][2]] + [lst[-1][2] for lst in wl]
    return all(outer[i] > 0 or outer[i + 1] < 0 for i in range(len(outer) - 1))


def _expected_selection(case, obs):
    """First feasible candidate below the cap (both readings of 'below'), with its predecessor, for monotone worlds."""
    cap = case.get("cap")
    wl = obs["wlists"]
    ok, preds = set(), {}
    for strict in (True, False):
        if len(wl) == 1:
            lst = wl[0]
        else:
            # bi-rectangle: first list whose last allowed candidate is feasible
            lst = None
            for cand in wl:
                a = _allowed(cand, cap, strict)
                if a and cand[a[-1]][1] == max(f[1] for f in cand) and cand[a[-1]][2] < 0:
                    lst = cand
                    break
            if lst is None:
                continue
        a = _allowed(lst, cap, strict)
        feas = [i for i in a if lst[i][2] < 0]
        if not feas:
            continue
        i = feas[0]
        ok.add(lst[i][0])
        if i > 0:
            preds[lst[i][0]] = lst[i - 1][0]
    return (ok, preds) if ok else None


# ------------------------------------------------------------------ state-graph bookkeeping

def state_trace(case, obs):
    """Abstract state after each simulate(): (method, domain shape, set of answered (field position, height class, sign))."""
    pos = {}
    n = 0
    for lst in obs["wlists"]:
        for f in lst:
            pos.setdefault(f[0], n)
            n += 1
    shape = [len(lst) for lst in obs["wlists"]]
    base = [case["method"], shape, case.get("cap") is not None, bool(case.get("cont"))]
    answered = set()
    s0 = core.h64(base + [[]])
    states, trans = [s0], []
    cur = s0
    for q in obs["queries"]:
        hc = "min" if q[2] == HMIN else "max" if q[2] == HMAX else "size"
        answered.add((pos.get(q[0], -1), hc, q[3] > 0))
        nxt = core.h64(base + [sorted(answered)])
        trans.append((cur, nxt))
        states.append(nxt)
        cur = nxt
    end = core.h64(base + [sorted(answered), obs["outcome"]])
    trans.append((cur, end))
    states.append(end)
    return states, trans


# ------------------------------------------------------------------ worlds for the synthetic families

def roots_monotone(k, counts, t, cls, out, near=None):
    """list k: candidates before index t fail at max height, candidate t has class cls, later ones are more feasible.
    near="pred": the candidate just before t misses the limit at max height by a hair (excess ~ +5e-5 K);
    near="first": candidate t meets it by a hair (excess ~ -5e-5 K)"""
    for i, c in enumerate(counts):
        key = "0:1" if c == 1 else f"{k}:{c}"
        if i < t:
            h0 = HMAX + (t - i) * 3.0 + IRR
            if near == "pred" and i == t - 1:
                h0 = HMAX + 5.0e-5
        else:
            if cls == "B":
                top = HMIN - 5.0 - IRR
            else:
                top = HMIN + {"I1": 0.1, "I5": 0.5, "I9": 0.9}[cls] * (HMAX - HMIN) + IRR
            h0 = top - (i - t) * 2.0
            if near == "first" and i == t:
                h0 = HMAX - 5.0e-5
        out[key] = h0 - (0.37 * k if not (near and abs(h0 - HMAX) < 1e-3) else 0.0)  # distinct fields never tie (a tie in excess between two fields is as unphysical as 0.0)
    return out


WVARS = [
    {"slope": 1.0, "side": "max", "shape": "linear", "limits": "wide"},
    {"slope": 0.02, "side": "min", "shape": "hyper", "limits": "narrow"},
]


def caps_for(counts, near=None, full=False):
    cs = set()
    allc = sorted(set(counts))
    if full:
        for c in allc:
            cs.update((c, c + 1))
    else:
        cs.update((2, allc[-1], allc[-1] + 1))
        if near is not None:
            cs.update((near - 1, near, near + 1, near + 2))
    return [None] + sorted(c for c in cs if c >= 2)


def expand(chunk):
    """chunk -> iterator of execution cases"""
    fam = chunk["fam"]
    method = chunk["method"]
    tier_full = chunk.get("full", False)
    if fam == "A1":
        n = chunk["n"]
        counts = list(range(1, n + 1))
        for t in range(0, n + 1):
            for cls in (("B", "I1", "I5", "I9") if t < n else ("I5",)):
                roots = roots_monotone(0, counts, t, cls, {})
                near = counts[t] if t < n else None
                for cap in caps_for(counts, near, tier_full):
                    for cont in (False, True):
                        for wv in WVARS:
                            yield {"fam": fam, "method": method, "synthetic": [counts], "cap": cap, "cont": cont,
                                   "flow": chunk.get("flow", "borehole"),
                                   "world": {"kind": "roots", "roots": roots, **wv}, "t": t, "cls": cls}
    elif fam == "A1E":
        # a candidate that misses / meets the limit at max height by 0.05 mK: the sign of a tiny excess still decides
        n = chunk["n"]
        counts = list(range(1, n + 1))
        for t in range(0, n + 1):
            for near in ("pred", "first"):
                if (near == "pred" and t == 0) or (near == "first" and t == n):
                    continue
                roots = roots_monotone(0, counts, t, "I5", {}, near=near)
                for cap in (None, counts[min(t, n - 1)] + 1):
                    for cont in (False, True):
                        for wv in WVARS:
                            yield {"fam": fam, "method": method, "synthetic": [counts], "cap": cap, "cont": cont, "flow": chunk.get("flow", "borehole"),
                                   "world": {"kind": "roots", "roots": roots, **wv}, "t": t, "near": near}
    elif fam == "A1Z":
        n = chunk["n"]
        counts = list(range(1, n + 1))
        for t in range(0, n + 1):
            for cls in (("B", "I5") if t < n else ("I5",)):
                roots = roots_monotone(0, counts, t, cls, {})
                for wv in ({"slope": 0.05, "side": "min", "shape": "linear", "limits": "zero_min"}, {"slope": 0.05, "side": "max", "shape": "hyper", "limits": "zero_max"}):
                    for cont in (False, True):
                        yield {"fam": fam, "method": method, "synthetic": [counts], "cap": None, "cont": cont, "flow": chunk.get("flow", "borehole"),
                               "world": {"kind": "roots", "roots": roots, **wv}, "t": t, "cls": cls}
    elif fam == "A1R":
        # every candidate fails over the whole height window and fails *more* the deeper it is: the documented fallback is
        # still "largest allowed candidate at maximum height"
        n = chunk["n"]
        counts = list(range(1, n + 1))
        roots = {("0:1" if c == 1 else f"0:{c}"): HMIN - 7.0 - 2.0 * (n - i) - IRR for i, c in enumerate(counts)}
        for cap in caps_for(counts, None, False):
            for cont in (False, True):
                for slope in (1.0, 0.03):
                    yield {"fam": fam, "method": method, "synthetic": [counts], "cap": cap, "cont": cont, "flow": chunk.get("flow", "borehole"),
                           "world": {"kind": "roots", "roots": roots, "slope": slope, "side": "max", "shape": "rising", "limits": "wide"}}
    elif fam == "A7":
        n = chunk["n"]
        counts = list(range(1, n + 1))
        for t in range(0, n + 1):
            for cls in (("B", "I5") if t < n else ("I5",)):
                roots = roots_monotone(0, counts, t, cls, {})
                for pre_cap, cap in ((None, None), (3, None), (None, 3), (3, 4)):
                    for pre_cont, cont in ((False, False), (True, False), (False, True), (True, True)):
                        for pre_flow, flow, rate in (("borehole", "borehole", 0.5), ("borehole", "system", 2.5), ("system", "borehole", 0.5)):
                            if pre_flow != flow and (pre_cap, cap, pre_cont, cont) != (None, None, False, False):
                                continue
                            # the binding side is the upper limit in one world and the lower limit in the other (an earlier
                            # configuration's limit left behind shows only on the side it binds)
                            for wv in (WVARS if (pre_cap, cap, pre_cont, cont, pre_flow) == (None, None, False, False, "borehole") else WVARS[:1]):
                                yield {"fam": fam, "method": method, "synthetic": [counts], "cap": cap, "cont": cont, "flow": flow, "flow_rate": rate,
                                       "pre": {"cap": pre_cap, "cont": pre_cont, "flow": pre_flow, "flow_rate": 0.5 if pre_flow == "borehole" else 2.5},
                                       "world": {"kind": "roots", "roots": roots, **wv}, "t": t, "cls": cls}
    elif fam == "A2":
        n = chunk["n"]
        counts = list(range(1, n + 1))
        for bits in itertools.product((0, 1), repeat=n):
            for layout in ("dec", "inc"):
                for fc in ("I", "B"):
                    roots = {}
                    for i, c in enumerate(counts):
                        r = (n - i) if layout == "dec" else (i + 1)
                        if bits[i]:
                            h0 = (HMAX - r * (70.0 / n) - IRR) if fc == "I" else (HMIN - 1.0 - r - IRR)
                        else:
                            h0 = HMAX + r * 1.5 + IRR
                        roots["0:1" if c == 1 else f"0:{c}"] = h0
                    for cap in ([None] + ([n // 2 + 1, n] if n > 2 else [2])):
                        for cont in (False, True):
                            yield {"fam": fam, "method": method, "synthetic": [counts], "cap": cap, "cont": cont,
                                   "world": {"kind": "roots", "roots": roots, **WVARS[0]}, "bits": list(bits),
                                   "layout": layout, "fc": fc}
    elif fam == "A3":
        n = chunk["n"]
        counts = list(range(1, n + 1))
        for bits in itertools.product((0, 1), repeat=n):
            for perm in itertools.permutations(range(n)):
                roots = {}
                for i, c in enumerate(counts):
                    r = perm[i] + 1
                    h0 = (HMAX - r * (70.0 / (n + 1)) - IRR) if bits[i] else (HMAX + 2.0 * r + IRR)
                    roots["0:1" if c == 1 else f"0:{c}"] = h0
                for cont in (False, True):
                    yield {"fam": fam, "method": method, "synthetic": [counts], "cap": None, "cont": cont,
                           "world": {"kind": "roots", "roots": roots, **WVARS[0]}, "bits": list(bits), "perm": list(perm)}
    elif fam == "A4":
        K, M = chunk["K"], chunk["M"]
        syn = [[1] + [(k + 1) * j for j in range(1, M)] for k in range(1, K + 1)]
        allcounts = sorted({c for lst in syn for c in lst})
        vecs = [tuple([0] * K)] + list(itertools.product(range(1, M + 1), repeat=K))
        for vec in vecs:
            for cls in ("I5", "B", "I9"):
                roots = {}
                for k, counts in enumerate(syn, start=1):
                    roots_monotone(k, counts, vec[k - 1], cls, roots)
                if any(vec):
                    roots["0:1"] = HMAX + 50.0 + IRR
                caps = [None] + ([c for c in allcounts if c >= 2] + [allcounts[-1] + 1] if tier_full else [3, allcounts[-1]])
                for cap in caps:
                    for cont in (False, True):
                        yield {"fam": fam, "method": method, "synthetic": syn, "cap": cap, "cont": cont,
                               "world": {"kind": "roots", "roots": roots, **WVARS[chunk.get("wv", 0)]}, "vec": list(vec),
                               "cls": cls}
    elif fam == "A5":
        geo = chunk["geo"]
        m = manager_for({"method": method, "geo": geo, "flow": chunk.get("flow", "borehole")})
        lists = domain_lists(m, method)
        counts = sorted({len(c) for lst in lists for c in lst})
        for c in counts + [counts[-1] + 1]:
            for lvl, T in (("top", c * HMAX * (1 - 1e-3) - IRR), ("mid", c * 0.5 * (HMIN + HMAX) + IRR),
                           ("bottom", c * HMIN * (1 - 1e-3) - IRR)):
                capset = [None, c, c + 1] + ([2, max(2, c - 1), counts[-1]] if tier_full else [])
                for cap in sorted({x for x in capset if x is None or x >= 2}, key=lambda x: (x is not None, x)):
                    for cont in (False, True):
                        yield {"fam": fam, "method": method, "geo": geo, "cap": cap, "cont": cont,
                               "flow": chunk.get("flow", "borehole"), "load_years": chunk.get("load_years"),
                               "world": {"kind": "drill", "T": T, **WVARS[chunk.get("wv", 0)]}, "need_count": c, "level": lvl}
    elif fam == "A6":
        geo = chunk["geo"]
        nmax = chunk["nmax"]
        for c in range(chunk["c0"], min(chunk["c0"] + chunk["cn"], nmax + 2)):
            for lvl, T in (("top", c * HMAX * (1 - 1e-3) - IRR), ("mid", c * 0.5 * (HMIN + HMAX) + IRR),
                           ("bottom", c * HMIN * (1 - 1e-3) - IRR)):
                for cont in (False, True):
                    yield {"fam": fam, "method": "rowwise", "geo": geo, "cap": None, "cont": cont,
                           "flow": chunk.get("flow", "borehole"), "load_years": chunk.get("load_years"),
                           "world": {"kind": "drill", "T": T, **WVARS[chunk.get("wv", 0)]}, "need_count": c, "level": lvl}
    elif fam == "A8":
        # narrow spacing windows on a lattice of lot sizes: many admit no whole number of rows (empty candidate list)
        for L in chunk["sides"]:
            for W in chunk["sides2"]:
                for bmin, bmax in ((5.0, 6.1), (3.4, 3.6), (6.0, 6.5), (2.5, 2.6), (7.5, 8.0), (3.0, 3.0)):
                    if method == "rectangle":
                        geo = {"length": L, "width": W, "b_min": bmin, "b_max": bmax}
                    elif method == "nearsquare":
                        geo = {"length": L, "b": bmax}
                    else:
                        geo = {"length": L, "width": W, "b_min": bmin, "b_max_x": bmax, "b_max_y": bmax}
                    yield {"fam": fam, "method": method, "geo": geo, "cap": None, "cont": chunk.get("cont", False), "flow": "borehole",
                           "world": {"kind": "drill", "T": 3.0 * HMAX * 0.999 - IRR, **WVARS[0]}, "domain_only": True}
    else:
        raise core.HarnessError(f"unknown family {fam}")


def run_chunk(chunk, props):
    """Runs every execution of the chunk; returns a core.Result whose violations are those of the properties in `props`."""
    res = core.Result(evals=0)
    states, trans = set(), set()
    single = chunk.get("single")
    execs = [chunk["exec"]] if single else expand(chunk)
    for case in execs:
        obs = execute(case)
        V, label = judge(case, obs)
        res["evals"] += 1
        res.outcome(label)
        nq = sum(1 for q in obs["queries"] if q[2] == HMAX)
        if nq >= 3:
            res["nontrivial"] += 1
        st, tr = state_trace(case, obs)
        states.update(st)
        trans.update(tr)
        for p in props:
            for x in V[p]:
                x = dict(x)
                x["case"] = {"single": True, "exec": case}
                res["violations"].append(x)
        if res["sample"] is None and res["evals"] == 5:
            res["sample"] = {"exec": case, "outcome": label,
                             "queries": [[q[6], q[1], q[2], round(q[3], 6)] for q in obs["queries"]][:12]}
    res["states"] = list(states)
    res["transitions"] = list(trans)
    return res
