"""Engine A seam: fake physics ("worlds") under the REAL search code.

What stays real : GHEManager.find_design, Design*.find_design, Bisection1D/2D/ZD, RowWiseModifiedBisectionSearch,
                  GHE.__init__/BaseGHE.__init__ (flow split, nbh), GHE.cost, GHE.size, GHE.compute_g_functions,
                  utilities.solve_root/sign/check_bracket, scipy brentq.
What is replaced: the module-level names through which that code reaches the physics
                  search_routines.GHE                               -> WorldGHE (subclass of the real GHE, simulate() only)
                  search_routines.calc_g_func_for_multiple_lengths  -> stub (records the call)
                  ground_heat_exchangers.calc_g_func_for_multiple_lengths, get_bhe_object, RadialNumericalBH, HybridLoad
                                                                    -> stubs
A world answers "what are (max EFT, min EFT) of field F at height H".
"""
from __future__ import annotations

import math
from types import SimpleNamespace

from vf import core

_installed = False
WORLD = None  # the world of the current execution
LOG = None  # per-execution log


class ExecLog:
    def __init__(self):
        self.queries = []  # (field_key, nbh, H, excess, max_eft, min_eft)
        self.gfunc_calls = []  # (where, nbh, tuple(h_values), m_flow_borehole)
        self.ghe_inits = []  # (nbh, V_flow_system, m_flow_borehole)
        self.load_years = []  # load_years keyword every GHE was built with
        self.gheights = []  # (heights the long-time g-function was computed for, height simulated)


def field_key(coords) -> str:
    """Identity of a field = its coordinate tuple (shared fields of nested lists get one answer).
    hash() of a tuple of floats does not depend on PYTHONHASHSEED."""
    return f"{len(coords)}:{hash(tuple((float(x), float(y)) for x, y in coords)) & 0xFFFFFFFFFFFF:x}"


def field_id(coords):
    c = [(float(x), float(y)) for x, y in coords]
    return (len(c), core.h64(c))


class ConformanceMiss(Exception):
    """the replayed search asked something the real search never asked"""


class World:
    """excess(F, H) strictly decreasing in H with root h0(F); never exactly 0 at the height bounds."""

    def __init__(self, spec: dict, hmin: float, hmax: float, max_allow: float, min_allow: float):
        self.spec = spec
        self.hmin, self.hmax = hmin, hmax
        self.max_allow, self.min_allow = max_allow, min_allow
        self.slope = float(spec.get("slope", 1.0))
        self.side = spec.get("side", "max")
        self.shape = spec.get("shape", "linear")
        self.kind = spec["kind"]
        self._roots = spec.get("roots")  # dict "k:c" -> h0   (synthetic fields)
        self._table = None
        if self.kind == "trace":
            # recorded real-physics answers: (field key, height) -> (max EFT, min EFT)
            self._table = {(q[0], round(q[1], 9)): (q[2], q[3]) for q in spec["table"]}

    def root(self, coords) -> float:
        if self.kind == "roots":
            k = synth_key(coords)
            if k not in self._roots:
                raise core.HarnessError(f"world has no answer for synthetic field {k}")
            return self._roots[k]
        if self.kind == "drill":
            # feasible iff nbh * H >= T  (T irrational-ish so that no bound is hit exactly)
            return self.spec["T"] / len(coords)
        raise core.HarnessError(f"unknown world kind {self.kind}")

    def excess(self, coords, h: float) -> float:
        if self.kind == "trace":
            mx, mn = self._lookup(coords, h)
            return max(mx - self.max_allow, self.min_allow - mn)
        h0 = self.root(coords)
        if self.shape == "rising":
            # excess positive over the whole window and GROWING with height (seen with very low system flow): root below the window
            return self.slope * (h - h0)
        if self.shape == "linear":
            return self.slope * (h0 - h)
        # hyperbolic: same root, same sign structure, non-linear so that brentq iterates
        return self.slope * 97.5 * (h0 / h - 1.0)

    def _lookup(self, coords, h):
        key = (field_key(coords), round(h, 9))
        if key not in self._table:
            raise ConformanceMiss(f"query not in the recorded trace: nbh={len(coords)} H={h!r}")
        return self._table[key]

    def answer(self, coords, h: float):
        """(max EFT, min EFT) with excess e on the binding side and e-0.5 on the other"""
        if self.kind == "trace":
            return self._lookup(coords, h)
        e = self.excess(coords, h)
        if self.side == "max":
            mx, mn = self.max_allow + e, self.min_allow - (e - 0.5)
        else:
            mx, mn = self.max_allow + (e - 0.5), self.min_allow - e
        if mn > mx:
            raise core.HarnessError(f"world answers min EFT {mn} > max EFT {mx} (excess {e} too negative for the window)")
        return mx, mn


def synth_field(k: int, c: int):
    """synthetic candidate: list id k, c boreholes.  k=0,c=1 is the shared one-borehole head [(0,0)]."""
    if c == 1:
        return [(0.0, 0.0)]
    return [(5.0 * j, 100.0 * k) for j in range(c)]


def synth_key(coords) -> str:
    c = len(coords)
    if c == 1:
        return "0:1"
    return f"{int(round(coords[0][1] / 100.0))}:{c}"


class _Stub:
    def __init__(self, **kw):
        self.__dict__.update(kw)


def install():
    """Rebind the seams. Idempotent. Raises HarnessError if a seam has disappeared."""
    global _installed
    if _installed:
        return
    import ghedesigner.ground_heat_exchangers as ghx
    import ghedesigner.search_routines as sr

    for mod, names in (
        (sr, ["GHE", "calc_g_func_for_multiple_lengths"]),
        (ghx, ["calc_g_func_for_multiple_lengths", "get_bhe_object", "RadialNumericalBH", "HybridLoad", "GHE"]),
    ):
        for n in names:
            if not hasattr(mod, n):
                raise core.HarnessError(f"seam missing: {mod.__name__}.{n}")

    real_ghe = ghx.GHE

    def fake_gfunc(b, h_values, r_b, depth, m_flow_borehole, bhe_type, log_time, coordinates, fluid, pipe, grout, soil,
                   *a, **kw):
        if LOG is not None:
            LOG.gfunc_calls.append((len(coordinates), tuple(float(h) for h in h_values), float(m_flow_borehole)))
        return _Stub(bore_locations=coordinates, log_time=log_time, B=b, g_lts={h: None for h in h_values},
                     r_b_values={h: r_b for h in h_values}, d=depth)

    def fake_bhe(bhe_type, m_flow_borehole, fluid, _borehole, pipe, grout, soil):
        o = _Stub(b=_borehole, borehole=_borehole, fluid=fluid, pipe=pipe, grout=grout, soil=soil,
                  m_flow_borehole=m_flow_borehole)
        o.to_single = lambda: o
        o.calc_effective_borehole_resistance = lambda: 0.1
        return o

    class FakeRadial:
        def __init__(self, bhe):
            self.t_s = 1.0

        def calc_sts_g_functions(self, bhe):
            return None

    class FakeHybrid:
        def __init__(self, *a, **kw):
            self.load = None
            self.hour = None

    class WorldGHE(real_ghe):
        def __init__(self, *a, **kw):
            super().__init__(*a, **kw)  # the REAL GHE.__init__ / BaseGHE.__init__ run on the stubs above
            if LOG is not None:
                LOG.ghe_inits.append((self.nbh, float(self.V_flow_system), float(self.m_flow_borehole)))
                LOG.load_years.append(list(kw.get("load_years") or []) if "load_years" in kw else None)

        def simulate(self, method):
            if WORLD is None:
                raise core.HarnessError("simulate() outside an execution")
            coords = self.gFunction.bore_locations
            h = float(self.bhe.b.H)
            mx, mn = WORLD.answer(coords, h)
            e = max(mx - WORLD.max_allow, WORLD.min_allow - mn)
            LOG.queries.append((field_key(coords), len(coords), h, e, mx, mn, self.fieldSpecifier))
            LOG.gheights.append((tuple(float(k) for k in getattr(self.gFunction, "g_lts", {})), h))
            # same bookkeeping as the real simulate(): results of the most recent call stay on the object
            self.times = [1.0, 2.0]
            self.loading = [0.0, 0.0]
            self.hp_eft = [mx, mn]
            self.dTb = [0.0, 0.0]
            return max(self.hp_eft), min(self.hp_eft)

    _SAVED.update({
        (ghx, "calc_g_func_for_multiple_lengths"): ghx.calc_g_func_for_multiple_lengths, (ghx, "get_bhe_object"): ghx.get_bhe_object,
        (ghx, "RadialNumericalBH"): ghx.RadialNumericalBH, (ghx, "HybridLoad"): ghx.HybridLoad,
        (sr, "calc_g_func_for_multiple_lengths"): sr.calc_g_func_for_multiple_lengths, (sr, "GHE"): sr.GHE,
    })
    ghx.calc_g_func_for_multiple_lengths = fake_gfunc
    ghx.get_bhe_object = fake_bhe
    ghx.RadialNumericalBH = FakeRadial
    ghx.HybridLoad = FakeHybrid
    sr.calc_g_func_for_multiple_lengths = fake_gfunc
    sr.GHE = WorldGHE
    _installed = True


_SAVED = {}


def uninstall():
    """put the real physics back (engine B alternates real runs and replays in one process)"""
    global _installed
    for (mod, name), obj in _SAVED.items():
        setattr(mod, name, obj)
    _SAVED.clear()
    _installed = False


def begin(world: World):
    global WORLD, LOG
    WORLD = world
    LOG = ExecLog()
    return LOG


def end():
    global WORLD, LOG
    WORLD = None
    LOG = None


IRR = math.pi / 1000.0  # irrational offset that keeps roots off the height bounds
