"""C09 - simulated fluid temperatures equal the documented temporal superposition.

Families
  detailed : every load sequence of length 1..4 over q in {-2,-1,0,1,2} x q0 with step lengths from {1 h, 5 h, 700 h}, through the
             real BaseGHE._simulate_detailed on real GHE objects (3 monotone g-function tables x N in {1,4,25,400} x 3 pipe types)
  hybrid   : the real GHE.simulate(HYBRID) with the hybrid load arrays overwritten by every sequence of length <= 2 (and a
             stride of the longer ones) over a parameter lattice (H, k_s, flow, fluid, T_g)
  hourly   : the real GHE.simulate(HOURLY) on 8760-h profiles that are zero except on <= 3 blocks
  relations: zero load -> exactly T_g; loads x lambda -> departure x lambda; rejection raises / extraction lowers; T_g + delta
Oracle     : vf/oracles/superposition.superposed_eft (scalar double sum) from the object's own g interpolant, R_b*, properties.
"""
from __future__ import annotations

import itertools
import warnings

import numpy as np

from vf import core, ghe_factory
from vf.oracles import superposition as SP

Q0 = 4000.0  # W per borehole-equivalent scale
QS = (-2, -1, 0, 1, 2)
DTS = (1.0, 5.0, 700.0)
HEIGHTS = [60.0, 97.5, 135.0]

_GHE = {}


def init_worker():
    import ghedesigner.ground_heat_exchangers as ghx

    warnings.filterwarnings("ignore")

    for n in ("GHE", "BaseGHE"):
        if not hasattr(ghx, n):
            raise core.HarnessError(f"seam missing: ghedesigner.ground_heat_exchangers.{n}")
    if not hasattr(ghx.BaseGHE, "_simulate_detailed"):
        raise core.HarnessError("seam missing: BaseGHE._simulate_detailed")


def coords_for(n):
    side = int(round(n ** 0.5))
    if side * side == n:
        return [(5.0 * i, 5.0 * j) for i in range(side) for j in range(side)]
    return [(5.0 * i, 0.0) for i in range(n)]


def get_ghe(cfg):
    key = core.canon(cfg)
    if key not in _GHE:
        coords = coords_for(cfg["N"])
        gf = ghe_factory.table_gfunction(coords, 5.0 if len(coords) > 1 else 0.075, HEIGHTS, 0.075, curve=cfg.get("curve", "base"))
        ghe = ghe_factory.make_ghe(coords, pipe=cfg.get("pipe", "single"), H=cfg.get("H", 97.5), flow_per_bh=cfg.get("flow", 0.3),
                                   fluid=tuple(cfg.get("fluid", ("Water", 0.0))), soil=(cfg.get("k_s", 2.0), 2343493.0, cfg.get("Tg", 18.3)),
                                   gfunc=gf, months=cfg.get("months", 12), loads=cfg.get("loads"))
        if len(_GHE) > 40:
            _GHE.clear()
        _GHE[key] = ghe
    return _GHE[key]


def snapshot_table(gf):
    return {"B": gf.B, "d": gf.d, "r_b_values": dict(gf.r_b_values), "g_lts": {k: [float(x) for x in v] for k, v in gf.g_lts.items()}, "log_time": [float(x) for x in gf.log_time],
            "bore_locations": list(gf.bore_locations)}


def independent_g(ghe, table=None):
    """the combined curve rebuilt from the long-time table the object holds NOW (or from `table`, a snapshot taken when the table was
    handed to the object) and its short-time response, on fresh objects (a curve remembered inside the GHE or its GFunction cannot leak
    into the oracle)"""
    from ghedesigner.gfunction import GFunction
    from ghedesigner.ground_heat_exchangers import BaseGHE

    gf = ghe.gFunction
    t_ = table or snapshot_table(gf)
    fresh = GFunction(b=t_["B"], d=t_["d"], r_b_values=dict(t_["r_b_values"]), g_lts={k: list(v) for k, v in t_["g_lts"].items()}, log_time=list(t_["log_time"]),
                      bore_locations=t_["bore_locations"])
    g_l, rbv, _, _ = fresh.g_function_interpolation(ghe.B_spacing / float(ghe.bhe.b.H))
    g_c = GFunction.borehole_radius_correction(list(g_l), rbv, ghe.bhe.b.r_b)
    return BaseGHE.combine_sts_lts(list(gf.log_time), g_c, ghe.radial_numerical.lntts.tolist(), ghe.radial_numerical.g.tolist())


def oracle_for(ghe, q_w, t_hours, table=None):
    g = independent_g(ghe, table)
    return SP.superposed_eft(q_w, t_hours, g, ghe.radial_numerical.t_s, ghe.bhe.soil.k, float(ghe.bhe.b.H), ghe.nbh,
                             ghe.bhe.calc_effective_borehole_resistance(), ghe.bhe.m_flow_borehole, ghe.bhe.fluid.cp, ghe.bhe.soil.ugt)


def seq_to_arrays(seq, scale):
    q = [s[0] * Q0 * scale for s in seq]
    t, acc = [], 0.0
    for s in seq:
        acc += s[1]
        t.append(acc)
    return q, t


def compare(res, case, got, want, what, tol=1e-9):
    got = [float(x) for x in got]
    if len(got) != len(want):
        res["violations"].append(core.viol("wrong_number_of_temperatures", case, msg=f"{what}: {len(got)} temperatures for {len(want)} load steps"))
        return False
    for n, (a, b) in enumerate(zip(got, want)):
        if not abs(a - b) <= tol * max(1.0, abs(b)):
            res["violations"].append(core.viol("temperature_differs_from_superposition", case, observed=a, expected=b,
                                               msg=f"{what}: step {n + 1}: simulated {a!r} C, documented superposition gives {b!r} C (difference {a - b:.3e})",
                                               path=what.split(":")[0], first_step=(n == 0)))
            return False
    return True


def run_detailed(case, res):
    ghe = get_ghe(case["cfg"])
    g, _ = ghe.grab_g_function(ghe.B_spacing / float(ghe.bhe.b.H))
    scale = ghe.nbh  # loads are total field loads
    L = case["L"]
    opts = [(q, dt) for q in QS for dt in DTS]
    first = case.get("first")
    for seq in itertools.product(opts, repeat=L):
        if first is not None and seq[0] != tuple(first):
            continue
        q, t = seq_to_arrays(seq, scale)
        res["evals"] += 1
        c1 = {"family": "detailed", "cfg": case["cfg"], "seq": [list(s) for s in seq]}
        hp, _ = ghe._simulate_detailed(np.array(q), np.array(t), g)
        want = oracle_for(ghe, q, t)
        compare(res, c1, hp, want, "detailed")
        if len({s[0] for s in seq}) > 1:
            res["nontrivial"] += 1
    res.outcome("detailed")
    res["sample"] = {"family": "detailed", "cfg": case["cfg"], "L": L}


def inject(ghe, q_w, t):
    ghe.hybrid_load.load = np.array([0.0, 0.0] + [x / 1000.0 for x in q_w])
    ghe.hybrid_load.hour = np.array([0.0, 0.0] + list(t))


def run_hybrid(case, res):
    from ghedesigner.enums import TimestepType

    ghe = get_ghe(case["cfg"])
    ghe.bhe.b.H = case["cfg"].get("H", 97.5)
    scale = ghe.nbh
    with warnings.catch_warnings():
        warnings.simplefilter("ignore")
        for seq in case["seqs"]:
            seq = [tuple(s) for s in seq]
            q, t = seq_to_arrays(seq, scale)
            c1 = {"family": "hybrid", "cfg": case["cfg"], "seqs": [[list(s) for s in seq]]}
            res["evals"] += 1
            inject(ghe, q, t)
            mx, mn = ghe.simulate(method=TimestepType.HYBRID)
            want = oracle_for(ghe, q, t)
            ok = compare(res, c1, ghe.hp_eft, want, "hybrid")
            if ok and (abs(mx - max(want)) > 1e-9 or abs(mn - min(want)) > 1e-9):
                res["violations"].append(core.viol("returned_extremes_wrong", c1, observed=[mx, mn], expected=[max(want), min(want)], msg="simulate() returned (max, min) that are not the extremes of hp_eft"))
            tg = ghe.bhe.soil.ugt
            # consequences: zero load, sign, linearity, ground-temperature shift
            if all(x == 0 for x in q):
                if any(float(v) != tg for v in ghe.hp_eft):
                    res["violations"].append(core.viol("zero_load_not_ground_temperature", c1, msg=f"zero load gives {list(map(float, ghe.hp_eft))}, ground temperature is {tg}"))
            if q[0] != 0:
                first = float(ghe.hp_eft[0])
                # "rejection raises, extraction lowers": a consequence of the formula whenever its first-step coefficient
                # g/(2 pi k) + R_b* - H/(2 m cp) is positive (at very short steps with little flow it is not: g -> -2 pi k R_b*)
                from math import log, pi

                gg, _ = ghe.grab_g_function(ghe.B_spacing / float(ghe.bhe.b.H))
                coef = float(gg(log(t[0] * 3600.0 / ghe.radial_numerical.t_s))) / (2 * pi * ghe.bhe.soil.k) + ghe.bhe.calc_effective_borehole_resistance() \
                    - float(ghe.bhe.b.H) / (2 * ghe.bhe.m_flow_borehole * ghe.bhe.fluid.cp)
                if coef <= 1e-6:
                    res.bump("sign_relation_not_applicable")
                elif (q[0] > 0 and not first > tg) or (q[0] < 0 and not first < tg):
                    res["violations"].append(core.viol("wrong_sign_of_response", c1, observed=first, msg=f"first step load {q[0]} W (rejection positive) gives {first} C with ground at {tg} C"))
            lam = 2.5
            base = [float(v) - tg for v in ghe.hp_eft]
            inject(ghe, [lam * x for x in q], t)
            ghe.simulate(method=TimestepType.HYBRID)
            scaled = [float(v) - tg for v in ghe.hp_eft]
            if any(abs(s_ - lam * b_) > 1e-9 * max(1.0, abs(lam * b_)) for s_, b_ in zip(scaled, base)):
                res["violations"].append(core.viol("not_linear_in_load", c1, msg=f"loads x {lam}: departures {scaled} vs {lam} x {base}"))
            # the same object after its long-time table was replaced (as compute_g_functions does after the search): the
            # simulation must follow the table the object holds now
            if case.get("swap"):
                coords = ghe.gFunction.bore_locations
                keep = ghe.gFunction
                ghe.gFunction = ghe_factory.table_gfunction(coords, keep.B, HEIGHTS, 0.075, curve="steep" if case["cfg"].get("curve", "base") != "steep" else "flat")
                try:
                    inject(ghe, q, t)
                    ghe.simulate(method=TimestepType.HYBRID)
                    compare(res, dict(c1, swap=True), ghe.hp_eft, oracle_for(ghe, q, t), "hybrid-after-table-swap")
                finally:
                    ghe.gFunction = keep
            inject(ghe, q, t)
            old = ghe.bhe.soil.ugt
            ghe.bhe.soil.ugt = old + 3.25
            try:
                ghe.simulate(method=TimestepType.HYBRID)
                shifted = [float(v) for v in ghe.hp_eft]
            finally:
                ghe.bhe.soil.ugt = old
            if any(abs(s_ - (b_ + tg + 3.25)) > 1e-9 for s_, b_ in zip(shifted, base)):
                res["violations"].append(core.viol("ground_temperature_shift_not_uniform", c1, msg="shifting the ground temperature by 3.25 K does not shift every temperature by 3.25 K"))
            res["nontrivial"] += 1
    res.outcome("hybrid")
    res["sample"] = {"family": "hybrid", "cfg": case["cfg"], "seqs": case["seqs"][:2]}


def run_repeat(case, res):
    """a long-time table stored for ONE height and for another borehole radius than the exchanger's (a library curve reused for another
    diameter), and the same object asked several times: every answer must be the superposition on the table as it was handed over"""
    from ghedesigner.enums import TimestepType

    cfg = case["cfg"]
    coords = coords_for(cfg["N"])
    gf = ghe_factory.table_gfunction(coords, 5.0 if len(coords) > 1 else 0.075, [cfg["H_table"]], cfg["rb_table"], curve=cfg.get("curve", "base"))
    table = snapshot_table(gf)
    ghe = ghe_factory.make_ghe(coords, pipe=cfg.get("pipe", "single"), H=cfg["H_table"], flow_per_bh=0.3, gfunc=gf, months=12, rb=cfg["rb"])
    q, t = seq_to_arrays([tuple(x) for x in case["seq"]], ghe.nbh)
    with warnings.catch_warnings():
        warnings.simplefilter("ignore")
        for k, what in enumerate(case["calls"]):
            res["evals"] += 1
            c1 = dict(case, calls=case["calls"][:k + 1])
            if what == "hybrid":
                inject(ghe, q, t)
                ghe.simulate(method=TimestepType.HYBRID)
                if not compare(res, c1, ghe.hp_eft, oracle_for(ghe, q, t, table), f"call {k + 1} (hybrid) on a one-height table of radius {cfg['rb_table']}"):
                    break
            elif what == "grab":
                ghe.grab_g_function(ghe.B_spacing / float(ghe.bhe.b.H))
            elif what == "size":
                inject(ghe, q, t)
                try:
                    ghe.size(method=TimestepType.HYBRID)
                except Exception:  # noqa: BLE001
                    pass
                ghe.bhe.b.H = cfg["H_table"]
    now = snapshot_table(ghe.gFunction)
    if now["g_lts"] != table["g_lts"]:
        k0 = next(iter(table["g_lts"]))
        res["violations"].append(core.viol("stored_table_changed", case, msg=f"after {case['calls']} the long-time table held by the object differs from the one it was given "
                                           f"(first value {now['g_lts'][k0][0]!r} vs {table['g_lts'][k0][0]!r})"))
    res.outcome("repeat")
    res["nontrivial"] += 1
    res["sample"] = dict(case)


def run_after_size(case, res):
    """after GHE.size() the temperatures the object holds are the superposition for the height it reports (root, or either clamp)"""
    from ghedesigner.enums import TimestepType

    cfg = case["cfg"]
    coords = coords_for(cfg["N"])
    gf = ghe_factory.table_gfunction(coords, 5.0 if len(coords) > 1 else 0.075, HEIGHTS, 0.075, curve=cfg.get("curve", "base"))
    table = snapshot_table(gf)
    ghe = ghe_factory.make_ghe(coords, pipe=cfg.get("pipe", "single"), H=97.5, flow_per_bh=0.3, gfunc=gf, months=12)
    q, t = seq_to_arrays([tuple(x) for x in case["seq"]], ghe.nbh * case["scale"])
    with warnings.catch_warnings():
        warnings.simplefilter("ignore")
        inject(ghe, q, t)
        res["evals"] += 1
        ghe.size(method=TimestepType.HYBRID)
        h = float(ghe.bhe.b.H)
        where = "min" if h == ghe.sim_params.min_height else "max" if h == ghe.sim_params.max_height else "root"
        compare(res, dict(case, returned_height=h), ghe.hp_eft, oracle_for(ghe, q, t, table), f"after size() ({where} height {h:.3f} m)")
    res.outcome("after_size_" + where)
    res["nontrivial"] += 1
    res["sample"] = dict(case)


def run_hourly(case, res):
    from ghedesigner.enums import TimestepType

    blocks = case["blocks"]  # list of (start hour index 0-based, length, W extraction)
    loads = [0.0] * 8760
    for s, ln, w in blocks:
        for h in range(s, s + ln):
            loads[h] = w
    if case.get("int_loads"):
        loads = [int(x) for x in loads]  # whole Watts given as Python ints (a load file read with int())
    if case.get("ndarray_calls"):
        # the caller's own float array covering the whole period, and several hourly runs on the same object: every run answers for the
        # loads the caller supplied, and the caller's array is left alone
        months = case["cfg"].get("months", 12)
        arr = np.array((loads * (months // 12))[: 8760 * (months // 12)], dtype=float)
        keep = arr.copy()
        coords0 = coords_for(case["cfg"]["N"])
        gf0 = ghe_factory.table_gfunction(coords0, 5.0 if len(coords0) > 1 else 0.075, HEIGHTS, 0.075)
        g0 = ghe_factory.make_ghe(coords0, pipe=case["cfg"].get("pipe", "single"), H=97.5, flow_per_bh=0.3, gfunc=gf0, months=months, loads=arr)
        first = None
        for k in range(case["ndarray_calls"]):
            res["evals"] += 1
            g0.simulate(method=TimestepType.HOURLY)
            cur = [float(v) for v in g0.hp_eft]
            if first is None:
                first = cur
            elif len(cur) != len(first) or max(abs(a - b) for a, b in zip(cur, first)) > 1e-9:
                res["violations"].append(core.viol("hourly_run_depends_on_earlier_runs", dict(case, ndarray_calls=k + 1), msg=f"hourly run #{k + 1} on the same object (loads handed over as the caller's float array) differs from run #1 by up to "
                                                   f"{max(abs(a - b) for a, b in zip(cur, first)) if len(cur) == len(first) else float('inf')} K"))
                break
        if not np.array_equal(arr, keep):
            res["violations"].append(core.viol("caller_loads_modified", case, msg="the caller's load array was modified by simulate(HOURLY)"))
        loads = list(keep[:8760])
    cfg = dict(case["cfg"], loads=None)
    coords = coords_for(cfg["N"])
    gf = ghe_factory.table_gfunction(coords, 5.0 if len(coords) > 1 else 0.075, HEIGHTS, 0.075, curve=cfg.get("curve", "base"))
    ghe = ghe_factory.make_ghe(coords, pipe=cfg.get("pipe", "single"), H=cfg.get("H", 97.5), flow_per_bh=cfg.get("flow", 0.3), gfunc=gf,
                               months=cfg.get("months", 12), loads=loads)
    res["evals"] += 1
    if case.get("retarget"):
        # the height is changed after construction (as the search and the sizing do); the result must be that of a GHE built at the
        # new height - differential oracle, independent of any time scale the object may have kept
        h1 = case["retarget"]
        if case.get("hourly_before"):
            ghe.simulate(method=TimestepType.HOURLY)  # an hourly run at the construction height first (then the sizing moves the height)
        ghe.bhe.b.H = h1
        mx, mn = ghe.simulate(method=TimestepType.HOURLY)
        fresh = ghe_factory.make_ghe(coords, pipe=cfg.get("pipe", "single"), H=h1, flow_per_bh=cfg.get("flow", 0.3), months=cfg.get("months", 12), loads=loads,
                                     gfunc=ghe_factory.table_gfunction(coords, 5.0 if len(coords) > 1 else 0.075, HEIGHTS, 0.075, curve=cfg.get("curve", "base")))
        fresh.simulate(method=TimestepType.HOURLY)
        if len(fresh.hp_eft) != len(ghe.hp_eft) or max(abs(float(a) - float(b)) for a, b in zip(fresh.hp_eft, ghe.hp_eft)) > 1e-9:
            d = max(abs(float(a) - float(b)) for a, b in zip(fresh.hp_eft, ghe.hp_eft)) if len(fresh.hp_eft) == len(ghe.hp_eft) else float("inf")
            res["violations"].append(core.viol("hourly_result_depends_on_construction_height", case, observed=d,
                                               msg=f"hourly simulation at {h1} m on a GHE built at {cfg.get('H', 97.5)} m differs by up to {d} K from a GHE built at {h1} m"))
    else:
        mx, mn = ghe.simulate(method=TimestepType.HOURLY)
    n_hours = int(cfg.get("months", 12) / 12.0 * 8760.0)
    reps = -(-n_hours // 8760)
    q = [-x for x in (loads * reps)][:max(n_hours, len(loads))] if reps > 1 else [-x for x in loads]
    t = list(range(1, len(q) + 1))
    # the oracle's double sum only has terms where the load changes: evaluate it at a set of probe hours
    g, _ = ghe.grab_g_function(ghe.B_spacing / float(ghe.bhe.b.H))
    changes = [i for i in range(len(q)) if (q[i] != (q[i - 1] if i else 0.0))]
    probes = sorted({0, len(q) - 1, len(q) // 2} | {c for c in changes} | {min(len(q) - 1, c + 1) for c in changes} | {max(0, c - 1) for c in changes})
    from math import log, pi

    ts_, k, H, N = ghe.radial_numerical.t_s, ghe.bhe.soil.k, float(ghe.bhe.b.H), ghe.nbh
    rb, md, cp, tg = ghe.bhe.calc_effective_borehole_resistance(), ghe.bhe.m_flow_borehole, ghe.bhe.fluid.cp, ghe.bhe.soil.ugt
    if len(ghe.hp_eft) != len(q):
        res["violations"].append(core.viol("wrong_number_of_temperatures", case, msg=f"hourly: {len(ghe.hp_eft)} temperatures for {len(q)} hours"))
        return
    for n in probes:
        acc = 0.0
        for i in changes:
            if i <= n:
                dq = (q[i] - (q[i - 1] if i else 0.0)) / N
                acc += dq * float(g(log((t[n] - (t[i - 1] if i else 0.0)) * 3600.0 / ts_)))
        want = tg + acc / (2 * pi * k * H) + q[n] / N / H * rb - q[n] / N / (2 * md * cp)
        got = float(ghe.hp_eft[n])
        if abs(got - want) > 1e-9 * max(1.0, abs(want)):
            res["violations"].append(core.viol("temperature_differs_from_superposition", case, observed=got, expected=want,
                                               msg=f"hourly: hour {n + 1}: simulated {got!r} C, documented superposition gives {want!r} C", path="hourly", first_step=(n == 0)))
            break
    res.outcome("hourly")
    res["nontrivial"] += 1
    res["sample"] = {k2: v for k2, v in case.items()}


def run_case(case):
    res = core.Result(evals=0)
    fam = case["family"]
    if fam == "detailed":
        if "seq" in case:
            ghe = get_ghe(case["cfg"])
            g, _ = ghe.grab_g_function(ghe.B_spacing / float(ghe.bhe.b.H))
            q, t = seq_to_arrays([tuple(s) for s in case["seq"]], ghe.nbh)
            hp, _ = ghe._simulate_detailed(np.array(q), np.array(t), g)
            res["evals"] += 1
            compare(res, case, hp, oracle_for(ghe, q, t), "detailed")
        else:
            run_detailed(case, res)
    elif fam == "hybrid":
        run_hybrid(case, res)
    elif fam == "hourly":
        run_hourly(case, res)
    elif fam == "repeat":
        run_repeat(case, res)
    elif fam == "after_size":
        run_after_size(case, res)
    return res


def main(run: core.Run, only=None):
    quick = run.tier == "quick"
    opts = [(q, dt) for q in QS for dt in DTS]
    det = []
    cfgs = [{"N": n, "curve": c, "pipe": p} for n, c, p in (
        [(4, "base", "single"), (1, "steep", "coaxial"), (25, "flat", "double_parallel")] if quick else
        [(n, c, p) for n in (1, 4, 25, 400) for c, p in (("base", "single"), ("steep", "coaxial"), ("flat", "double_series"))])]
    for cfg in cfgs:
        for L in (1, 2, 3):
            det.append({"family": "detailed", "cfg": cfg, "L": L})
        if not quick or cfg["N"] == 4:
            for f in opts:
                det.append({"family": "detailed", "cfg": cfg, "L": 4, "first": list(f)})
    run.drive(det, family="detailed")
    seqs2 = [[list(a)] for a in opts] + [[list(a), list(b)] for a in opts for b in opts]
    seqs34 = [[list(x) for x in s] for k, s in enumerate(itertools.product(opts, repeat=3)) if k % 97 == 0] + \
             [[list(x) for x in s] for k, s in enumerate(itertools.product(opts, repeat=4)) if k % 1999 == 0]
    hyb = []
    lattice = []
    for H in (60.0, 97.5, 135.0):
        for ks in (1.0, 2.0, 4.0):
            for flow in (0.1, 0.3, 1.0):
                for fluid in (("Water", 0.0), ("PROPYLENEGLYCOL", 30.0)):
                    for tg in (5.0, 18.3):
                        lattice.append({"N": 4, "H": H, "k_s": ks, "flow": flow, "fluid": list(fluid), "Tg": tg, "pipe": "single"})
    sel = lattice[:: 9] if quick else lattice
    for k, cfg in enumerate(sel):
        cfg = dict(cfg, pipe=("single", "double_parallel", "coaxial")[k % 3], N=(1, 4, 25, 400)[k % 4])
        chunk = (seqs2[k % 7:: 7] if quick else seqs2[k % 3:: 3]) + seqs34[k % 5:: 5]
        hyb.append({"family": "hybrid", "cfg": cfg, "seqs": chunk, "swap": k % 2 == 0})
    run.drive(hyb, family="hybrid")
    hourly = []
    blocksets = [[(0, 1, 3000.0)], [(8759, 1, -3000.0)], [(4000, 24, 5000.0)], [(0, 3, -2000.0), (4380, 1, 4000.0), (8750, 10, -1000.0)],
                 [(100, 1, 1.0e4), (101, 1, -1.0e4)], []]
    for k, b in enumerate(blocksets if not quick else blocksets[:4]):
        hourly.append({"family": "hourly", "cfg": {"N": (1, 4, 25)[k % 3], "pipe": ("single", "coaxial")[k % 2], "months": 12 if k % 2 == 0 else 24}, "blocks": [list(x) for x in b]})
    hourly.append({"family": "hourly", "cfg": {"N": 4, "pipe": "single", "months": 12, "H": 97.5}, "blocks": [[10, 5, 4000.0], [6000, 48, -3000.0]], "retarget": 60.0})
    hourly.append({"family": "hourly", "cfg": {"N": 4, "pipe": "coaxial", "months": 12, "H": 60.0}, "blocks": [[0, 24, -5000.0]], "retarget": 135.0})
    hourly.append({"family": "hourly", "cfg": {"N": 4, "pipe": "single", "months": 12, "H": 100.0}, "blocks": [[10, 5, 4000.0], [6000, 48, -3000.0]], "retarget": 130.0, "hourly_before": True})
    hourly.append({"family": "hourly", "cfg": {"N": 1, "pipe": "single", "months": 12, "H": 120.0}, "blocks": [[0, 240, -2000.0]], "retarget": 70.0, "hourly_before": True})
    hourly.append({"family": "hourly", "cfg": {"N": 4, "pipe": "single", "months": 12}, "blocks": [[10, 5, 4000], [6000, 48, -3000], [8000, 2, 1]], "int_loads": True})
    hourly.append({"family": "hourly", "cfg": {"N": 1, "pipe": "coaxial", "months": 24}, "blocks": [[0, 24, -5000], [4000, 3, 2500]], "int_loads": True})
    hourly.append({"family": "hourly", "cfg": {"N": 4, "pipe": "single", "months": 12}, "blocks": [[0, 8760, -2500.0], [100, 50, -6000.0]], "ndarray_calls": 3})
    hourly.append({"family": "hourly", "cfg": {"N": 1, "pipe": "single", "months": 24}, "blocks": [[2000, 3000, 1500.0]], "ndarray_calls": 2})
    run.drive(hourly, family="hourly")
    rep = [{"family": "repeat", "cfg": {"N": n, "pipe": p, "H_table": 97.5, "rb_table": rbt, "rb": 0.075, "curve": c}, "seq": [[1.0, 730.0], [-0.5, 24.0], [2.0, 6.0]], "calls": calls}
           for n, p, c in ((4, "single", "base"), (1, "coaxial", "steep")) for rbt in (0.06, 0.075, 0.09)
           for calls in (["hybrid", "hybrid", "hybrid"], ["grab", "grab", "hybrid"], ["hybrid", "size", "hybrid"])]
    run.drive(rep if not quick else rep[::2], family="one-height-table-other-radius")
    asz = [{"family": "after_size", "cfg": {"N": n, "pipe": p}, "seq": [[1.0, 2190.0], [-0.6, 730.0], [2.0, 48.0], [0.5, 2000.0]], "scale": sc}
           for n, p in ((4, "single"), (1, "coaxial"), (4, "double_parallel")) for sc in (0.02, 0.6, 1.0, 1.6, 4.0, 40.0)]
    run.drive(asz, family="after-size")
    return run.finish(
        rule="detailed: every load sequence of length 1..4 over 5 load levels x 3 step lengths on real GHE objects; hybrid: real simulate() "
             "with injected sequences over a parameter lattice plus the four consequences; hourly: real simulate(HOURLY) on block profiles; "
             "one evaluation = one simulated sequence compared step by step with the independent double sum (1e-9); non-trivial = the "
             "sequence has at least two different load levels, every hybrid/hourly case",
        bounds={"sequence_length": 4, "load_levels": len(QS), "step_lengths_h": DTS, "field_sizes": [1, 4, 25, 400], "g_tables": ["base", "steep", "flat"],
                "hybrid_parameter_points": len(sel)},
        assumptions=["the combined g-function interpolant, R_b*, t_s and fluid properties are taken from the object (C10, C11, C15 check them)",
                     "the long-time table is a hand-built monotone table (the property quantifies over all monotone tables; three shapes are used)"],
        require_outcomes=("detailed", "hybrid", "hourly", "repeat", "after_size_min", "after_size_root", "after_size_max"),
    )
