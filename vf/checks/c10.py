"""C10 - the short-time radial g-function is conservative and physically consistent.

Alphabet : borehole radius x pipe size x height x grout k x soil k x volumetric heat capacities x fluid x flow: full factorial lattice.
Observed : the cell table (fill_radial_cells) and, through a wrapper around the module-level dgtsv, the temperature vector of
           every time step.
Oracle   : (a) cells tile [r_fluid, 10 m]; (b) fluid cells hold the thermal mass of both pipe legs; (c) layer resistances between
           fluid and borehole wall sum to R_b*; (d) stored heat = injected heat - heat leaving through the far cell (1e-6); (e) g and
           g_bhw finite, g non-decreasing, g_bhw >= 0, g >= -2 pi k R_b*; (f) the last g within 0.5 % of an independent finite-volume
           solution on a 2x finer mesh with a 4x smaller time step (vf/oracles/radial_fv.py).
"""
from __future__ import annotations

import warnings
from math import log, pi

import numpy as np

from vf import core
from vf.oracles import radial_fv as RF

RBS = [0.050, 0.075, 0.120]
PIPES = [(0.0109, 0.0134), (0.0136, 0.0167), (0.0170, 0.0211)]
HS = [20.0, 100.0, 400.0]
KG = [0.6, 1.0, 2.5]
KS = [1.0, 2.0, 4.0]
RCG = [2.0e6, 3.9e6]
RCS = [1.8e6, 3.0e6]
FLUIDS = [("Water", 0.0), ("PROPYLENEGLYCOL", 20.0)]
MDOT = [0.05, 0.3, 1.0]


def init_worker():
    import ghedesigner.radial_numerical_borehole as rn

    warnings.filterwarnings("ignore")
    for n in ("dgtsv", "RadialNumericalBH", "CellProps"):
        if not hasattr(rn, n):
            raise core.HarnessError(f"seam missing: radial_numerical_borehole.{n}")


def build(cfg):
    from ghedesigner.borehole import GHEBorehole
    from ghedesigner.borehole_heat_exchangers import SingleUTube
    from ghedesigner.media import GHEFluid, Grout, Pipe, Soil

    r_in, r_out = cfg["pipe"]
    s = 0.018
    pipe = Pipe(Pipe.place_pipes(s, r_out, 1), r_in, r_out, s, 1.0e-6, 0.4, 1542000.0)
    return SingleUTube(cfg["mdot"], GHEFluid(cfg["fluid"][0], cfg["fluid"][1]), GHEBorehole(cfg["H"], 2.0, cfg["rb"], 0.0, 0.0), pipe,
                       Grout(cfg["k_g"], cfg["rc_g"]), Soil(cfg["k_s"], cfg["rc_s"], 18.3))


def check_one(cfg, res):
    import ghedesigner.radial_numerical_borehole as rn

    if cfg["pipe"][1] * 2 + 0.018 / 2 + 0.004 > cfg["rb"]:
        res.bump("pipe_does_not_fit_skipped")
        return
    res["evals"] += 1
    bhe = build(cfg)
    rnb = rn.RadialNumericalBH(bhe)
    rb_star = bhe.calc_effective_borehole_resistance()
    rf = bhe.R_f / 2.0
    rpg = rb_star - rf
    cells = rnb.fill_radial_cells(rf, rpg)
    CP = rn.CellProps

    def v(kind, msg, **a):
        res["violations"].append(core.viol(kind, cfg, msg=msg, **a))

    r_i, r_c, r_o, kk, rc, vol = (cells[CP.R_IN], cells[CP.R_CENTER], cells[CP.R_OUT], cells[CP.K], cells[CP.RHO_CP], cells[CP.VOL])
    n = cells.shape[1]
    # (a) tiling
    gap = float(np.max(np.abs(r_o[:-1] - r_i[1:])))
    if gap > 1e-12 or abs(r_i[0] - rnb.r_fluid) > 1e-12 or abs(r_o[-1] - 10.0) > 1e-9:
        v("cells_do_not_tile", f"max gap between consecutive cells {gap}, first r_in {r_i[0]} (r_fluid {rnb.r_fluid}), last r_out {r_o[-1]}")
    if np.any(np.abs(vol - pi * (r_o ** 2 - r_i ** 2)) > 1e-12 * vol):
        v("cell_volume_wrong", "a cell volume differs from pi (r_out^2 - r_in^2)")
    # (b) fluid thermal mass
    nf = rnb.num_fluid_cells
    mass = float(np.sum(rc[:nf] * vol[:nf]))
    want = 2 * pi * cfg["pipe"][0] ** 2 * bhe.fluid.rhoCp
    if abs(mass - want) > 1e-12 * want:
        v("fluid_thermal_mass_wrong", f"fluid cells hold {mass} J/(m K), both pipe legs hold {want}", observed=mass, expected=want)
    # (c) layer resistances between fluid and borehole wall
    a0, a1 = nf, rnb.bh_wall_idx
    rsum = float(np.sum(np.log(r_o[a0:a1] / r_i[a0:a1]) / (2 * pi * kk[a0:a1])))
    if abs(rsum - rb_star) > 1e-9 * rb_star:
        v("layer_resistances_do_not_sum_to_rb", f"convection+pipe+grout layers sum to {rsum} m K/W, R_b* = {rb_star}", observed=rsum, expected=rb_star)
    # (c') materials: every cell from the borehole wall outwards is soil, every cell inside it lies inside the borehole
    wall = rnb.bh_wall_idx
    if np.any(np.abs(kk[wall:] - cfg["k_s"]) > 1e-12 * cfg["k_s"]) or np.any(np.abs(rc[wall:] - cfg["rc_s"]) > 1e-9 * cfg["rc_s"]):
        v("soil_cell_with_other_material", f"a cell outside the borehole wall has k / rho c other than the soil's ({cfg['k_s']}, {cfg['rc_s']})")
    if np.any(r_o[:wall] > cfg["rb"] * (1 + 1e-12)) or abs(r_i[wall] - cfg["rb"]) > 1e-12:
        v("borehole_wall_misplaced", f"cells inside the wall reach r = {float(np.max(r_o[:wall]))}, the first soil cell starts at {r_i[wall]}, r_b = {cfg['rb']}")
    if cfg.get("static_only"):
        res.outcome("static")
        res["nontrivial"] += 1
        return
    # run the model with a recording wrapper around dgtsv
    real = rn.dgtsv
    rec = {"n": 0, "out_sum": 0.0, "last": None, "checks": []}
    cap = rc * vol
    fe1 = log(r_o[n - 2] / r_c[n - 2]) / (2 * pi * kk[n - 2])
    fe2 = log(r_c[n - 1] / r_i[n - 1]) / (2 * pi * kk[n - 1])
    a_e = 1.0 / (fe1 + fe2)
    dt = 120.0
    t_init = rnb.init_temp

    ae0 = 1.0 / (log(r_o[0] / r_c[0]) / (2 * pi * kk[0]) + log(r_c[1] / r_i[1]) / (2 * pi * kk[1]))
    rec["elapsed"] = 0.0
    rec["steps_dt"] = set()

    def spy(dl, d, du, b, overwrite_b=0):
        # the physical length of this implicit step as the matrix has it: du[0] = a_e / (rho c V / dt) for the core cell
        dt_k = float(du[0]) * cap[0] / ae0
        out = real(dl, d, du, b, overwrite_b=overwrite_b)
        x = np.asarray(out[3], dtype=float)
        if len(x) < n:  # a solver that marches only part of the radius leaves the rest at the initial temperature
            x = np.concatenate([x, np.full(n - len(x), t_init)])
        rec["n"] += 1
        rec["elapsed"] += dt_k
        rec["steps_dt"].add(round(dt_k, 6))
        rec["out_sum"] += dt_k * (x[n - 2] - x[n - 1]) * a_e
        k = rec["n"]
        if k in (1, 2, 10, 100) or k % 500 == 0:
            stored = float(np.sum(cap[: n - 1] * (x[: n - 1] - t_init)))
            rec["checks"].append((k, stored, rec["elapsed"] * 1.0 - rec["out_sum"]))
        rec["last"] = x
        return out

    rn.dgtsv = spy
    try:
        ftf = cfg.get("final_time_factor")
        period = rnb.calc_time_in_sec * (ftf or 1.0)
        lntts, g = rnb.calc_sts_g_functions(bhe, final_time=period) if ftf else rnb.calc_sts_g_functions(bhe)
    finally:
        rn.dgtsv = real
    x = rec["last"]
    t_label0 = float(rnb.t_s * np.exp(np.asarray(lntts, dtype=float)[-1])) if len(lntts) else 0.0
    if x is None:
        # the response came back without a single tridiagonal solve being seen (taken from a store of earlier responses): the
        # balance cannot be observed; the response itself is still compared with the reference at the labelled time
        res.bump("response_without_observed_solve")
        rec["elapsed"] = t_label0 + dt
        rec["steps_dt"].add(dt)
    else:
        stored = float(np.sum(cap[: n - 1] * (x[: n - 1] - t_init)))
        rec["checks"].append((rec["n"], stored, rec["elapsed"] - rec["out_sum"]))
    # the time labels against the time the matrices actually marched: the tool labels the k-th solve (k-1) steps (a known one-step
    # offset, see DESIGN.md), so one step of slack is allowed and no more; the labelled period must reach the computed period
    dt_max = max(rec["steps_dt"])
    t_label = float(rnb.t_s * np.exp(lntts[-1]))
    if abs(t_label - rec["elapsed"]) > dt_max * (1 + 1e-9) + 1e-6:
        v("time_labels_disagree_with_marched_time", f"the last short-time point is labelled {t_label:.1f} s but the {rec['n']} implicit steps marched {rec['elapsed']:.1f} s "
          f"(step lengths in the matrices: {sorted(rec['steps_dt'])[:4]})", observed=t_label, expected=rec["elapsed"])
    if t_label < period - 2 * dt_max - 1e-6:
        v("computed_period_not_covered", f"the last short-time point is at {t_label:.1f} s, the computed period is {period:.1f} s", observed=t_label, expected=period)
    for k, st, inj in rec["checks"]:
        if abs(st - inj) > 1e-6 * abs(inj):
            v("heat_not_conserved", f"after step {k}: cells store {st} J/m, injected minus far-field outflow is {inj} J/m (rel {abs(st - inj) / abs(inj):.2e})", step=k if k <= 100 else "later")
            break
    # (e) shape of the response
    g = np.asarray(rnb.g)
    gb = np.asarray(rnb.g_bhw)
    if not (np.all(np.isfinite(g)) and np.all(np.isfinite(gb)) and np.all(np.isfinite(rnb.lntts))):
        v("response_not_finite", "g / g_bhw / lntts contain non-finite values")
    else:
        if np.any(np.diff(g) < -1e-12):
            v("g_decreases", f"g decreases by up to {float(-np.min(np.diff(g)))}")
        if np.any(gb < -1e-12):
            v("g_bhw_negative", f"borehole-wall response is negative: min {float(np.min(gb))}")
        if np.any(g < -2 * pi * bhe.soil.k * rb_star - 1e-12):
            v("g_below_lower_bound", f"g drops to {float(np.min(g))}, below -2 pi k R_b* = {-2 * pi * bhe.soil.k * rb_star}")
        if np.any(np.diff(rnb.lntts) <= 0):
            v("lntts_not_increasing", "short-time ln(t/ts) axis is not strictly increasing")
    # (f) independent finer solution at the same elapsed time
    if cfg.get("reference", True):
        layers = RF.layers_from_inputs(cfg["rb"], cfg["pipe"][0], cfg["pipe"][1], cfg["k_s"], cfg["rc_s"], cfg["rc_g"], 1542000.0, bhe.fluid.rhoCp, rf, rpg)
        d_core, _ = RF.solve(layers, max(1, int(round(rec["elapsed"] / dt))), dt, refine=2, substeps=4)
        g_ref = 2 * pi * cfg["k_s"] * (d_core / 1.0 - rb_star)
        g_last = float(g[-1])
        if abs(g_last - g_ref) > 0.005 * max(abs(g_ref), 1e-3):
            v("differs_from_finer_solution", f"last g = {g_last}, independent finer solution {g_ref} (rel {abs(g_last - g_ref) / abs(g_ref):.3e}) after {rec['n']} steps", observed=g_last, expected=g_ref)
        res.bump("reference_solutions")
    res.outcome("laminar" if cfg["mdot"] <= 0.05 else "turbulent")
    res["nontrivial"] += 1


def run_reuse(case, res):
    """one solver object asked again after the borehole's height or the ground temperature changed (as GHE.simulate does): the
    response must equal the one a fresh solver gives"""
    import copy

    import ghedesigner.radial_numerical_borehole as rn

    cfg = case["cfg"]
    bhe = build(cfg)
    solver = rn.RadialNumericalBH(bhe)
    l0, g0 = solver.calc_sts_g_functions(bhe)
    float(solver.g_sts(l0[-1]))  # the response is read through its interpolant, as the hybrid load analysis does
    for step in case["steps"]:
        res["evals"] += 1
        if step.get("other_object"):
            # the next request comes with ANOTHER exchanger object (as GHE.simulate hands over a freshly built equivalent tube)
            bhe = copy.deepcopy(bhe)
            if "mdot" in step:
                bhe = build(dict(cfg, H=float(bhe.b.H), mdot=step["mdot"]))
                bhe.soil.ugt = step.get("ugt", bhe.soil.ugt)
        if "H" in step:
            bhe.b.H = step["H"]
        if "ugt" in step:
            bhe.soil.ugt = step["ugt"]
        l1, g1 = solver.calc_sts_g_functions(bhe)
        gb1 = np.array(solver.g_bhw)
        fresh = rn.RadialNumericalBH(copy.deepcopy(bhe))
        l2, g2 = fresh.calc_sts_g_functions(copy.deepcopy(bhe))
        # the interpolant the object hands out describes the response just computed (same range, same values)
        try:
            gi = [float(solver.g_sts(x)) for x in (l1[0], l1[len(l1) // 2], l1[-1])]
            bad_i = max(abs(a - b) for a, b in zip(gi, (g1[0], g1[len(g1) // 2], g1[-1]))) > 1e-9
        except Exception as e:  # noqa: BLE001
            gi, bad_i = f"{type(e).__name__}: {e}", True
        if bad_i:
            res["violations"].append(core.viol("interpolant_differs_from_response", dict(case, steps=case["steps"][: case["steps"].index(step) + 1]),
                                               msg=f"after {step} the object's g_sts interpolant gives {gi} at the first / middle / last point of the response just computed ({float(g1[0])}, ..., {float(g1[-1])})"))
            break
        if not (np.allclose(l1, l2, rtol=0, atol=1e-12) and np.allclose(g1, g2, rtol=0, atol=1e-9) and np.allclose(gb1, fresh.g_bhw, rtol=0, atol=1e-9)):
            res["violations"].append(core.viol("reused_solver_differs_from_fresh", dict(case, steps=case["steps"][: case["steps"].index(step) + 1]),
                                               msg=f"after {step} the reused solver's last g is {float(g1[-1])!r}, a fresh solver gives {float(g2[-1])!r}", changed=sorted(step)))
            break
    res.outcome("reuse")
    res["nontrivial"] += 1
    res["sample"] = dict(case)


def run_case(case):
    res = core.Result(evals=0)
    if "steps" in case:
        run_reuse(case, res)
        return res
    if "H" in case:
        check_one(case, res)
        return res
    for cfg in case["cfgs"]:
        check_one(cfg, res)
        if res["sample"] is None:
            res["sample"] = cfg
    return res


def lattice(quick):
    import itertools

    if quick:
        axes = [RBS[::2], PIPES[::2], HS[:2], KG[::2], KS[::2], RCS[:1], FLUIDS[:1], MDOT[::2], RCG]
    else:
        axes = [RBS, PIPES, HS, KG, KS, RCS, FLUIDS, MDOT, RCG]
    out = []
    # the grout heat capacity is the innermost axis: lattice points that differ only in it are neighbours (same worker, same chunk)
    for rb, p, h, kg, ks, rcs, fl, md, rcg in itertools.product(*axes):
        out.append({"rb": rb, "pipe": list(p), "H": h, "k_g": kg, "k_s": ks, "rc_g": rcg, "rc_s": rcs, "fluid": list(fl), "mdot": md})
    return out


def main(run: core.Run, only=None):
    quick = run.tier == "quick"
    cfgs = lattice(quick)
    # the reference solve is expensive for H = 400 m (long computed period): there it is done for every 4th lattice point
    for i, c in enumerate(cfgs):
        c["reference"] = (c["H"] < 400.0) or (i % 4 == 0)
    if quick:
        cfgs += [dict(c, H=400.0, reference=(i % 8 == 0)) for i, c in enumerate(cfgs) if c["H"] == 100.0 and i % 2 == 0]
        # slim boreholes (grout annulus below 27 mm, i.e. grout cells thinner than 1 mm)
        cfgs += [{"rb": 0.050, "pipe": [0.0136, 0.0167], "H": h, "k_g": kg, "k_s": 2.0, "rc_g": 3.9e6, "rc_s": 2.3e6, "fluid": ["Water", 0.0], "mdot": md, "reference": True}
                 for h, kg, md in ((100.0, 1.0, 0.3), (20.0, 2.5, 0.05), (100.0, 0.6, 1.0))]
        cfgs += [{"rb": 0.045, "pipe": [0.0109, 0.0134], "H": 100.0, "k_g": 1.0, "k_s": 2.0, "rc_g": 3.9e6, "rc_s": 2.3e6, "fluid": ["Water", 0.0], "mdot": 0.3, "reference": True}]
    heavy = [c for c in cfgs if c["H"] >= 400.0]
    light = [c for c in cfgs if c["H"] < 400.0]
    cases = [{"cfgs": light[i:i + 4]} for i in range(0, len(light), 4)] + [{"cfgs": heavy[i:i + 2]} for i in range(0, len(heavy), 2)]
    run.drive(cases, family="lattice")
    # the cell table alone (no time marching) on a dense geometry lattice: borehole radius in 2.5 mm steps x the standard pipe sizes
    stat = []
    for pin, pout in ((0.0081, 0.0100), (0.0102, 0.0125), (0.0109, 0.0134), (0.0131, 0.0160), (0.0136, 0.0167), (0.0163, 0.0200), (0.0170, 0.0211), (0.0204, 0.0250)):
        cfgs_ = [{"rb": round(0.045 + 0.0025 * i, 4), "pipe": [pin, pout], "H": 100.0, "k_g": kg, "k_s": ks, "rc_g": 3.9e6, "rc_s": 2.3e6, "fluid": ["Water", 0.0], "mdot": 0.3, "static_only": True}
                 for i in range(31) for kg, ks in ((0.8, 3.0), (2.0, 1.1))]
        stat.append({"cfgs": cfgs_})
    run.drive(stat, family="cell-table-geometry-lattice")
    # an explicitly requested, longer period (the solver's final_time argument)
    longer = [{"rb": rb, "pipe": [0.0136, 0.0167], "H": h, "k_g": 1.0, "k_s": ks, "rc_g": 3.9e6, "rc_s": 2.3e6, "fluid": ["Water", 0.0], "mdot": 0.3, "reference": True, "final_time_factor": f}
              for rb, h, ks in ((0.075, 100.0, 2.0), (0.055, 60.0, 3.5)) for f in ((4.0,) if quick else (2.0, 4.0, 9.8))]
    run.drive([{"cfgs": [c]} for c in longer], family="explicit-final-time")
    base = {"rb": 0.075, "pipe": [0.0136, 0.0167], "H": 100.0, "k_g": 1.0, "k_s": 2.0, "rc_g": 3.9e6, "rc_s": 2.3e6, "fluid": ["Water", 0.0], "mdot": 0.3}
    reuse = [{"cfg": dict(base, **d), "steps": st} for d in ({}, {"H": 60.0, "mdot": 0.05}, {"rb": 0.12, "k_s": 4.0})
             for st in ([{"H": 60.0}, {"H": 135.0}, {"H": 60.0}], [{"ugt": 11.0}, {"ugt": 25.0}], [{"H": 80.0, "ugt": 5.0}, {"H": 300.0}, {"ugt": 18.3}])]
    reuse += [{"cfg": dict(base, **d), "steps": st} for d in ({}, {"rb": 0.12, "k_s": 4.0})
              for st in ([{"H": 60.0, "other_object": True}, {"H": 135.0, "other_object": True}], [{"mdot": 0.05, "other_object": True}, {"mdot": 1.0, "H": 80.0, "other_object": True}])]
    run.drive(reuse, family="solver-reuse")
    return run.finish(
        rule="full factorial lattice (borehole radius x pipe x H x k_g x k_s x rho*c_g x rho*c_s x fluid x flow); one evaluation = one "
             "calc_sts_g_functions run observed cell by cell and step by step; non-trivial = every lattice point (pipes that do not fit are skipped and counted)",
        bounds={"rb": RBS if not quick else RBS[::2], "pipes": PIPES if not quick else PIPES[::2], "H": HS, "k_g": KG, "k_s": KS, "mdot": MDOT, "lattice_points": len(cfgs)},
        assumptions=["the reference solver shares the layer model (Xu & Spitler equivalent layers) and R_b* (pygfunction) but not mesh, time step or solver",
                     "compared at the same elapsed time (number of solves x 120 s); the 120 s offset of the tool's time labels is not asserted",
                     "the far cell is held at the initial temperature; heat crossing into it is accounted for in the balance"],
        require_outcomes=("laminar", "turbulent", "reuse"),
    )
