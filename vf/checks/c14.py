"""C14 - RowWise on convex lots terminates, stays inside, keeps spacing, fills the lot, moves rigidly.

Alphabet : lots = strictly convex polygons with vertices on the 4x4 lattice (counter-clockwise, as the input format asks; a
           variant keeps the lattice points on the edges as extra vertices), scaled by {20, 33.3} m and translated by {0, 7.5} m
           (0 = touching both axes), near-regular n-gons; target spacing {5, 10, 17, 25} m where the lot is at least two spacings
           wide; single rotations {-90,-60,-45,-30,-15,0,15,30,45,60,75} deg; rotation windows x steps for the optimisers;
           perimeter ratio {None, 0.8}; one convex no-go quadrilateral strictly inside.
Oracle   : CPU-time horizon for termination; exact convex containment (1e-6 m slack); nearest-neighbour distance; closed-form
           lattice for axis-aligned rectangles; optimiser size = max over the documented rotation sweep, recomputed by calling the
           single-rotation generator; translation equivariance.
"""
from __future__ import annotations

import math
import signal
from itertools import combinations

import numpy as np
from scipy.spatial import cKDTree

from vf import core
from vf.oracles import polygon as P

PTS = [(x, y) for x in range(4) for y in range(4)]
ROTS = [-90.0, -60.0, -45.0, -30.0, -15.0, 0.0, 15.0, 30.0, 45.0, 60.0, 75.0]
HORIZON_S = 1.5

_rw = None


def init_worker():
    global _rw
    from ghedesigner import rowwise

    for n in ("gen_borehole_config", "field_optimization_fr", "field_optimization_wp_space_fr", "gen_shape", "remove_duplicates"):
        if not hasattr(rowwise, n):
            raise core.HarnessError(f"seam missing: ghedesigner.rowwise.{n}")
    _rw = rowwise


class Horizon(Exception):
    pass


def _alarm(signum, frame):
    raise Horizon()


def with_horizon(fn, *a, **k):
    """run fn under a CPU-time horizon; returns (result, None) or (None, 'timeout') / (None, exception)"""
    old = signal.signal(signal.SIGVTALRM, _alarm)
    signal.setitimer(signal.ITIMER_VIRTUAL, k.pop("_budget", HORIZON_S))
    try:
        return fn(*a, **k), None
    except Horizon:
        return None, "timeout"
    except Exception as e:  # noqa: BLE001
        return None, e
    finally:
        signal.setitimer(signal.ITIMER_VIRTUAL, 0)
        signal.signal(signal.SIGVTALRM, old)


def hull(ps):
    ps = sorted(set(ps))

    def half(q):
        h = []
        for p in q:
            while len(h) >= 2 and P.cross(h[-2][0], h[-2][1], h[-1][0], h[-1][1], p[0], p[1]) <= 0:
                h.pop()
            h.append(p)
        return h

    lo, up = half(ps), half(ps[::-1])
    return lo[:-1] + up[:-1]


_POLYS = None


def convex_polygons():
    """all strictly convex lattice polygons, counter-clockwise, simplest (fewest vertices) first"""
    global _POLYS
    if _POLYS is None:
        out = []
        for n in range(3, 9):
            for S in combinations(PTS, n):
                h = hull(S)
                if len(h) == n:
                    out.append(h)
        _POLYS = out
    return _POLYS


def with_edge_points(poly):
    """same outline with the lattice points lying on its edges added as (collinear) vertices"""
    out = []
    n = len(poly)
    for i in range(n):
        a, b = poly[i], poly[(i + 1) % n]
        out.append(a)
        g = math.gcd(abs(b[0] - a[0]), abs(b[1] - a[1]))
        for k in range(1, g):
            out.append((a[0] + (b[0] - a[0]) * k // g, a[1] + (b[1] - a[1]) * k // g))
    return out


def min_width(poly):
    """minimum width of a convex polygon (float)"""
    best = float("inf")
    n = len(poly)
    for i in range(n):
        a, b = poly[i], poly[(i + 1) % n]
        ex, ey = b[0] - a[0], b[1] - a[1]
        ln = math.hypot(ex, ey)
        if ln == 0:
            continue
        w = max(abs((p[0] - a[0]) * ey - (p[1] - a[1]) * ex) / ln for p in poly)
        best = min(best, w)
    return best


def inside_convex(poly, pts, slack=1e-6):
    """True where pts lie inside or on the counter-clockwise convex polygon (distance slack in metres)"""
    pts = np.asarray(pts, dtype=float).reshape(-1, 2)
    ok = np.ones(len(pts), dtype=bool)
    n = len(poly)
    for i in range(n):
        a, b = poly[i], poly[(i + 1) % n]
        ex, ey = b[0] - a[0], b[1] - a[1]
        ln = math.hypot(ex, ey)
        if ln == 0:
            continue
        d = ((pts[:, 0] - a[0]) * ey - (pts[:, 1] - a[1]) * ex) / ln  # > 0 means to the right of a->b = outside for ccw
        ok &= d <= slack
    return ok


def strictly_inside_convex(poly, pts, margin=1e-6):
    pts = np.asarray(pts, dtype=float).reshape(-1, 2)
    ok = np.ones(len(pts), dtype=bool)
    n = len(poly)
    for i in range(n):
        a, b = poly[i], poly[(i + 1) % n]
        ex, ey = b[0] - a[0], b[1] - a[1]
        ln = math.hypot(ex, ey)
        d = ((pts[:, 0] - a[0]) * ey - (pts[:, 1] - a[1]) * ex) / ln
        ok &= d < -margin
    return ok


def nn_min(pts):
    a = np.asarray(pts, dtype=float).reshape(-1, 2)
    if len(a) < 2:
        return float("inf")
    d, _ = cKDTree(a).query(a, k=2)
    return float(d[:, 1].min())


def lot_coords(case):
    s, off = case["scale"], case["offset"]
    return [[s * x + off, s * y + off] for x, y in case["poly"]]


def gen_once(lot, spacing, rot_deg, nogo=None):
    field, ng = _rw.gen_shape(lot, [nogo] if nogo else None)
    return _rw.gen_borehole_config(field, spacing, spacing, no_go=ng, rotate=rot_deg * math.pi / 180.0)


def rows_along_an_edge(lot, rot_deg):
    """some edge of the lot is parallel (within 1e-4 deg) to the row direction"""
    n = len(lot)
    for i in range(n):
        a, b = lot[i], lot[(i + 1) % n]
        ang = math.degrees(math.atan2(b[1] - a[1], b[0] - a[0]))
        d = (ang - rot_deg) % 180.0
        if min(d, 180.0 - d) < 1e-4:
            return True
    return False


def row_through_vertex(lot, spacing, rot_deg):
    """degenerate geometry: some row of the documented construction (rows spread evenly over the lot's extent normal to the row
    direction, floor(extent / spacing) of them) passes exactly through a vertex that is not the single lowest / highest one"""
    if rot_deg is None:
        return False
    r = math.radians(rot_deg)
    nx, ny = -math.sin(r), math.cos(r)
    lv = [p[0] * nx + p[1] * ny for p in lot]
    lo, hi = min(lv), max(lv)
    d = hi - lo
    n = int(d // spacing) if spacing > 0 else 0
    tol = 1e-7 * max(1.0, d)
    if sum(1 for x in lv if abs(x - lo) < tol) > 1 or sum(1 for x in lv if abs(x - hi) < tol) > 1:
        return True  # the first or last row runs along an edge / through two vertices
    if n < 1:
        return False
    pitch = d / n
    for x in lv:
        if abs(x - lo) < tol or abs(x - hi) < tol:
            continue
        k = (x - lo) / pitch
        if abs(k - round(k)) * pitch < tol:
            return True
    return False


def check_field(res, case, lot, pts, spacing, what, nogo=None, check_spacing=True, rot_deg=None):
    pts = np.asarray(pts, dtype=float).reshape(-1, 2)
    if len(pts) == 0:
        res["violations"].append(core.viol("empty_field", case, msg=f"{what}: no borehole generated", row_through_vertex=row_through_vertex(lot, spacing, rot_deg)))
        return
    ok = inside_convex(lot, pts)
    if not ok.all():
        p = pts[~ok][0]
        res["violations"].append(core.viol("borehole_outside_lot", dict(case, point=[float(p[0]), float(p[1])]),
                                           msg=f"{what}: borehole ({p[0]:.6f}, {p[1]:.6f}) lies outside the outline {lot}", what=what))
    if nogo is not None:
        bad = strictly_inside_convex(nogo, pts)
        if bad.any():
            p = pts[bad][0]
            res["violations"].append(core.viol("borehole_inside_no_go", dict(case, point=[float(p[0]), float(p[1])]),
                                               msg=f"{what}: borehole ({p[0]:.6f}, {p[1]:.6f}) lies strictly inside the no-go zone {nogo}", what=what))
    if check_spacing and nogo is None:
        d = nn_min(pts)
        if d < spacing * (1 - 1e-9):
            res["violations"].append(core.viol("spacing_below_target", case, observed=d, expected=spacing,
                                               msg=f"{what}: nearest-neighbour distance {d:.6f} m below the target spacing {spacing}",
                                               rows_vertical=(rot_deg is not None and abs(abs(rot_deg) - 90.0) < 1e-4),
                                               rows_along_an_edge=(rot_deg is not None and rows_along_an_edge(lot, rot_deg)),
                                               row_through_vertex=row_through_vertex(lot, spacing, rot_deg)))


def run_single(case, res):
    """one lot, one spacing: every single rotation; optional no-go; translation equivariance at two rotations"""
    lot = lot_coords(case)
    spacing = case["spacing"]
    nogo = case.get("nogo")
    for rot in case["rots"]:
        res["evals"] += 1
        c1 = dict(case, rots=[rot])
        out, err = with_horizon(gen_once, lot, spacing, rot, nogo)
        if err == "timeout":
            res["violations"].append(core.viol("does_not_terminate", c1, msg=f"gen_borehole_config did not finish within {HORIZON_S} s of CPU time: lot {lot}, spacing {spacing}, rotation {rot} deg",
                                               rotation=rot, touches_y_axis=min(p[0] for p in lot) == 0.0, touches_x_axis=min(p[1] for p in lot) == 0.0))
            res.outcome("timeout")
            continue
        if err is not None:
            res["violations"].append(core.viol("generator_raised", c1, msg=f"gen_borehole_config raised {type(err).__name__}: {err} (lot {lot}, spacing {spacing}, rotation {rot})", exc=type(err).__name__, rotation=rot))
            res.outcome("raised")
            continue
        check_field(res, c1, lot, out, spacing, f"rotation {rot}", nogo=nogo, rot_deg=rot)
        res.outcome("generated")
        if rot != 0.0 or case["offset"] == 0:
            res["nontrivial"] += 1
    # the same outline given with whole numbers as ints (as a JSON input file may) must give the same field
    if case.get("as_int") and all(float(v).is_integer() for p in lot for v in p):
        ilot = [[int(v) for v in p] for p in lot]
        for rot in case["rots"]:
            res["evals"] += 1
            f0, e0 = with_horizon(gen_once, lot, spacing, rot, nogo)
            f1, e1 = with_horizon(gen_once, ilot, spacing, rot, nogo)
            if e0 is None and (e1 is not None or np.asarray(f0).shape != np.asarray(f1).shape or not np.allclose(np.asarray(f0, dtype=float), np.asarray(f1, dtype=float), atol=1e-9, rtol=0)):
                res["violations"].append(core.viol("integer_outline_changes_field", dict(case, rots=[rot]), observed=[len(np.asarray(f0)), None if e1 is not None else len(np.asarray(f1))],
                                                   msg=f"lot {ilot} given as integers at rotation {rot}: field differs from the same lot given as floats ({'error ' + str(e1) if e1 is not None else str(len(f1)) + ' vs ' + str(len(f0)) + ' boreholes / positions differ'})", rotation=rot))
            res.outcome("int_outline")
    # translation: the same lot moved by (a, b) gives the same field moved by (a, b)
    if case.get("translate") and nogo is None and spacing not in (5.0, 10.0, 20.0):  # exact multiples of the lattice pitch are degenerate
        for rot in case["translate"]:
            a, b = 12.5, 3.25
            f0, e0 = with_horizon(gen_once, lot, spacing, rot)
            f1, e1 = with_horizon(gen_once, [[x + a, y + b] for x, y in lot], spacing, rot)
            res["evals"] += 1
            if e0 is None and e1 is None:
                p0 = np.asarray(f0, dtype=float).reshape(-1, 2) + np.array([a, b])
                p1 = np.asarray(f1, dtype=float).reshape(-1, 2)
                same = len(p0) == len(p1)
                if same and len(p0):
                    # one-to-one matching of the two point sets within 1e-4 m (a sort-and-zip comparison is fooled by round-off ties)
                    d, idx = cKDTree(p1).query(p0, k=1)
                    same = bool(np.all(d < 1e-4)) and len(set(idx.tolist())) == len(p0)
                if not same:
                    res["violations"].append(core.viol("translation_changes_field", dict(case, rots=[rot]), observed=[len(p0), len(p1)],
                                                       msg=f"lot {lot} at rotation {rot}: {len(p0)} boreholes, translated by ({a},{b}): {len(p1)} boreholes / different positions",
                                                       row_through_vertex=row_through_vertex(lot, spacing, rot)))


def run_rect(case, res):
    """axis-aligned rectangle at rotation 0: exactly the (floor(W/s)+1) x (floor(H/s)+1) lattice"""
    W, H, s, ox, oy = case["W"], case["H"], case["spacing"], case["ox"], case["oy"]
    lot = [[ox, oy], [ox + W, oy], [ox + W, oy + H], [ox, oy + H]]
    res["evals"] += 1
    out, err = with_horizon(gen_once, lot, s, 0.0)
    if err is not None:
        res["violations"].append(core.viol("does_not_terminate" if err == "timeout" else "generator_raised", case, msg=f"rectangle {W}x{H} at ({ox},{oy}), spacing {s}: {err}", rotation=0.0))
        return
    nx, ny = int(W // s), int(H // s)
    want = sorted((round(ox + i * W / nx, 6), round(oy + j * H / ny, 6)) for i in range(nx + 1) for j in range(ny + 1))
    got = sorted((round(float(x), 6), round(float(y), 6)) for x, y in np.asarray(out).reshape(-1, 2))
    if got != want:
        res["violations"].append(core.viol("rectangle_lattice_wrong", case, observed=len(got), expected=len(want),
                                           msg=f"rectangle {W}x{H} at ({ox},{oy}), spacing {s}: {len(got)} boreholes, expected the {nx + 1}x{ny + 1} lattice with pitches {W / nx:.4f} x {H / ny:.4f}"))
    res.outcome("rectangle")
    res["nontrivial"] += 1


def sweep(start_deg, stop_deg, step_deg):
    """the documented rotation sweep in radians: rt = start; while rt < stop: ...; rt += step (the same accumulation as
    the documented loop, because the borehole count is discontinuous in the rotation when rows line up with an edge);
    rotations within 1e-9 rad of the end of the window are optional"""
    definite, optional = [], []
    rt = start_deg * math.pi / 180.0
    stop = stop_deg * math.pi / 180.0
    step = step_deg * math.pi / 180.0
    while rt < stop + 1e-9:
        (optional if abs(rt - stop) <= 1e-9 else definite).append(rt)
        rt += step
    return definite, optional


def gen_once_rad(lot, spacing, rot_rad):
    field, ng = _rw.gen_shape(lot, None)
    return _rw.gen_borehole_config(field, spacing, spacing, no_go=ng, rotate=rot_rad, intersection_tolerance=1e-5)


def run_opt(case, res):
    lot = lot_coords(case)
    s = case["spacing"]
    start, stop, step = case["window"]
    ratio = case.get("ratio")
    nogo = case.get("nogo")
    field, ng = _rw.gen_shape(lot, [nogo] if nogo else None)
    res["evals"] += 1
    nrot = max(1, int((stop - start) / step) + 1)
    if ratio is None:
        out, err = with_horizon(_rw.field_optimization_fr, s, step, field, ng_zones=ng, rotate_start=start * math.pi / 180, rotate_stop=stop * math.pi / 180, _budget=HORIZON_S + 0.4 * nrot)
    else:
        out, err = with_horizon(_rw.field_optimization_wp_space_fr, ratio, s, step, field, ng_zones=ng, rotate_start=start * math.pi / 180, rotate_stop=stop * math.pi / 180, _budget=HORIZON_S + 0.4 * nrot)
    if err is not None:
        kind = "does_not_terminate" if err == "timeout" else "generator_raised"
        res["violations"].append(core.viol(kind, case, msg=f"optimiser on lot {lot}, spacing {s}, window {case['window']}, ratio {ratio}: {err}", rotation=start,
                                           touches_y_axis=min(p[0] for p in lot) == 0.0, touches_x_axis=min(p[1] for p in lot) == 0.0,
                                           **({"exc": type(err).__name__} if err != "timeout" else {})))
        res.outcome("timeout" if err == "timeout" else "raised")
        return
    pts, name = out
    try:
        rot_name = float(name.split("_rt")[-1])
    except ValueError:
        rot_name = None
    check_field(res, case, lot, pts, s, f"optimiser {name}", nogo=nogo, check_spacing=(ratio is None), rot_deg=rot_name)
    if ratio is None and nogo is None:
        definite, optional = sweep(start, stop, step)
        sizes = {}
        for r in definite + optional:
            g, e = with_horizon(gen_once_rad, lot, s, r)
            if e is None:
                sizes[round(r * 180.0 / math.pi, 6)] = len(_rw.remove_duplicates(g, s * 1.2))
        if sizes:
            best_def = max((sizes[round(r * 180.0 / math.pi, 6)] for r in definite if round(r * 180.0 / math.pi, 6) in sizes), default=0)
            best_all = max(sizes.values())
            n = len(np.asarray(pts).reshape(-1, 2))
            if n not in (best_def, best_all) and not (best_def <= n <= best_all):
                res["violations"].append(core.viol("optimiser_not_densest", case, observed=n, expected=best_def,
                                                   msg=f"optimiser returned {n} boreholes ({name}); the densest rotation of the sweep {case['window']} yields {best_def} (per rotation: {sizes})"))
    res.outcome("optimised")
    res["nontrivial"] += 1


def run_case(case):
    res = core.Result(evals=0)
    k = case.get("kind")
    if k == "single":
        run_single(case, res)
    elif k == "rect":
        run_rect(case, res)
    elif k == "opt":
        run_opt(case, res)
    elif k == "chunk":
        polys = convex_polygons()
        for pi in case["polys"]:
            base = polys[pi]
            for variant in case["variants"]:
                poly = base if variant == "hull" else with_edge_points(base)
                if variant == "edge" and len(poly) == len(base):
                    continue
                for scale in case["scales"]:
                    for off in case["offsets"]:
                        w = min_width(poly) * scale
                        for s in case["spacings"]:
                            if w < 2 * s:
                                res.bump("lot_too_thin_skipped")
                                continue
                            c = {"kind": "single", "poly": [list(p) for p in poly], "scale": scale, "offset": off, "spacing": s, "rots": case["rots"],
                                 "translate": case.get("translate"), "as_int": case.get("as_int", False)}
                            run_single(c, res)
                            if res["sample"] is None:
                                res["sample"] = c
    else:
        raise core.HarnessError(f"unknown case kind {k}")
    return res


INNER_NOGO = {20.0: [[24.0, 22.0], [33.0, 23.0], [34.0, 31.0], [25.0, 30.0]], 33.3: [[38.0, 36.0], [52.0, 37.0], [53.0, 50.0], [39.0, 49.0]]}


def main(run: core.Run, only=None):
    quick = run.tier == "quick"
    polys = convex_polygons()
    npoly = len(polys)
    stride = 8 if quick else 1
    idx = list(range(0, npoly, stride))
    chunks = []
    step = 4
    for i in range(0, len(idx), step):
        chunks.append({"kind": "chunk", "polys": idx[i:i + step], "variants": ["hull"] if quick else ["hull", "edge"], "scales": [20.0] if quick else [20.0, 33.3],
                       "offsets": [0.0, 7.5] if not (i % (2 * step) == 0) else [0.0, 7.5, 3.0], "spacings": [7.3] if quick else [5.3, 7.3, 10.0, 11.9, 17.0, 23.0], "rots": ROTS if not quick else [-90.0, -45.0, 0.0, 30.0, 75.0],
                       "translate": [0.0, 30.0] if i % (4 * step) == 0 else None, "as_int": i % (2 * step) == 0})
    run.drive(chunks, family="single-rotation")
    rects = []
    for W in (20.0, 25.0, 33.3, 40.0, 47.0, 60.0, 65.0, 80.5):
        for H in (20.0, 25.0, 33.3, 47.0, 50.5):
            for s in (5.0, 7.5, 10.0) if not quick else (10.0,):
                for ox, oy in ((0.0, 0.0), (7.5, 3.0)):
                    if W >= 2 * s and H >= 2 * s:
                        rects.append({"kind": "rect", "W": W, "H": H, "spacing": s, "ox": ox, "oy": oy})
    run.drive(rects, family="rectangles")
    opts = []
    windows = [(-90.0, 90.0, 15.0), (-90.0, 0.0, 5.0), (0.0, 90.0, 15.0), (-30.0, 30.0, 5.0), (0.0, 10.0, 4.0), (-10.0, 10.0, 3.0)]
    if not quick:
        windows += [(-90.0, 90.0, 5.0), (-90.0, 0.0, 0.5), (-20.0, 20.0, 0.5)]
    sel = idx[:: (9 if quick else 40)]
    for pi in sel:
        for scale in (20.0,) if quick else (20.0, 33.3):
            for off in (0.0, 7.5):
                for w in windows:
                    for ratio in (None, 0.8):
                        poly = polys[pi]
                        if min_width(poly) * scale < 14.6:
                            continue
                        opts.append({"kind": "opt", "poly": [list(p) for p in poly], "scale": scale, "offset": off, "spacing": 7.3, "window": list(w), "ratio": ratio})
    # rotated rectangles: the densest rotation is the last one of a window that is not a multiple of the step
    for (W, H) in ((65.0, 47.0), (80.5, 50.5)):
        th = 8.0 * math.pi / 180
        c, s_ = math.cos(th), math.sin(th)
        rect = [[0, 0], [W, 0], [W, H], [0, H]]
        poly = [[x * c - y * s_ + 30.0, x * s_ + y * c + 5.0] for x, y in rect]
        for w in ((0.0, 10.0, 4.0), (-10.0, 10.0, 3.0), (0.0, 12.0, 4.0)):
            for ratio in (None, 0.8):
                opts.append({"kind": "opt", "poly": poly, "scale": 1.0, "offset": 0.0, "spacing": 10.0, "window": list(w), "ratio": ratio})
    # no-go zone strictly inside
    for pi in sel[:: 2]:
        for scale in (20.0, 33.3):
            poly = polys[pi]
            lot = [[scale * x + 7.5, scale * y + 7.5] for x, y in poly]
            ng = INNER_NOGO[scale]
            if all(strictly_inside_convex(lot, ng, margin=1.0)):
                for ratio in (None, 0.8):
                    opts.append({"kind": "opt", "poly": [list(p) for p in poly], "scale": scale, "offset": 7.5, "spacing": 10.0 if scale == 20.0 else 12.0,
                                 "window": [-90.0, 90.0, 30.0], "ratio": ratio, "nogo": ng})
    run.drive(opts, family="optimisers")
    return run.finish(
        rule="strictly convex lattice lots (every stride-th of 2719) x scale x offset x spacing x single rotations; axis-aligned rectangles; "
             "optimisers over rotation windows with / without perimeter ratio and no-go zone; one evaluation = one generator or optimiser "
             "call under a CPU-time horizon; non-trivial = rotated rows, or a lot touching the axes, rectangles, optimiser runs",
        bounds={"convex_lattice_polygons": npoly, "stride": stride, "scales_m": [20.0] if quick else [20.0, 33.3], "offsets_m": [0.0, 7.5],
                "single_rotations_deg": ROTS, "cpu_horizon_s": HORIZON_S},
        assumptions=["outlines are given counter-clockwise (the input format asks for it)", "lots narrower than two spacings are skipped and counted",
                     "rotations within 1e-9 degree of the end of a window may or may not be tried (float accumulation in the sweep)",
                     "spacing is asserted only without perimeter spacing and without no-go zones, as the property states"],
        require_outcomes=("generated", "rectangle", "optimised"),
    )
