"""C14 - RowWise on convex lots terminates, stays inside, keeps spacing, fills the lot, moves rigidly.

Alphabet : lots = strictly convex polygons with vertices on the 4x4 lattice (counter-clockwise, as the input format asks; a
           variant keeps the lattice points on the edges as extra vertices), scaled by {20, 33.3} m and translated by {0, 7.5} m
           (0 = touching both axes), near-regular n-gons; target spacing {5, 10, 17, 25} m where the lot is at least two spacings
           wide; single rotations {-90,-60,-45,-30,-15,0,15,30,45,60,75} deg; rotation windows x steps for the optimisers;
           perimeter ratio {None, 0.8}; one convex no-go quadrilateral strictly inside.
Oracle   : CPU-time horizon for termination; exact convex containment (1e-6 m slack); nearest-neighbour distance; closed-form
           lattice for axis-aligned rectangles; optimiser size = max over the documented rotation sweep, recomputed by calling the
           single-rotation generator; translation equivariance.
"""
from __future__ import annotations

import math
import signal
from itertools import combinations

import numpy as np
from scipy.spatial import cKDTree

from vf import core
from vf.oracles import polygon as P

PTS = [(x, y) for x in range(4) for y in range(4)]
ROTS = [-90.0, -60.0, -45.0, -30.0, -15.0, 0.0, 15.0, 30.0, 45.0, 60.0, 75.0]
HORIZON_S = 1.5

_rw = None


def init_worker():
    global _rw
    from ghedesigner import rowwise

    for n in ("gen_borehole_config", "field_optimization_fr", "field_optimization_wp_space_fr", "gen_shape", "remove_duplicates"):
        if not hasattr(rowwise, n):
            raise core.HarnessError(f"seam missing: ghedesigner.rowwise.{n}")
    _rw = rowwise


class Horizon(Exception):
    pass


def _alarm(signum, frame):
    raise Horizon()


def with_horizon(fn, *a, **k):
    """run fn under a CPU-time horizon; returns (result, None) or (None, 'timeout') / (None, exception)"""
    old = signal.signal(signal.SIGVTALRM, _alarm)
    signal.setitimer(signal.ITIMER_VIRTUAL, k.pop("_budget", HORIZON_S))
    try:
        return fn(*a, **k), None
    except Horizon:
        return None, "timeout"
    except Exception as e:  # noqa: BLE001
        return None, e
    finally:
        signal.setitimer(signal.ITIMER_VIRTUAL, 0)
        signal.signal(signal.SIGVTALRM, old)


def hull(ps):
    ps = sorted(set(ps))

    def half(q):
        h = []
        for p in q:
            while len(h) >= 2 and P.cross(h[-2][0], h[-2][1], h[-1][0], h[-1][1], p[0], p[1]) <= 0:
                h.pop()
            h.append(p)
        return h

    lo, up = half(ps), half(ps[::-1])
    return lo[:-1] + up[:-1]


_POLYS = None


def convex_polygons():
    """all strictly convex lattice polygons, counter-clockwise, simplest (fewest vertices) first"""
    global _POLYS
    if _POLYS is None:
        out = []
        for n in range(3, 9):
            for S in combinations(PTS, n):
                h = hull(S)
                if len(h) == n:
                    out.append(h)
        _POLYS = out
    return _POLYS


def with_edge_points(poly):
    """same outline with the lattice points lying on its edges added as (collinear) vertices"""
    out = []
    n = len(poly)
    for i in range(n):
        a, b = poly[i], poly[(i + 1) % n]
        out.append(a)
        g = math.gcd(abs(b[0] - a[0]), abs(b[1] - a[1]))
        for k in range(1, g):
            out.append((a[0] + (b[0] - a[0]) * k // g, a[1] + (b[1] - a[1]) * k // g))
    return out


def min_width(poly):
    """minimum width of a convex polygon (float)"""
    best = float("inf")
    n = len(poly)
    for i in range(n):
        a, b = poly[i], poly[(i + 1) % n]
        ex, ey = b[0] - a[0], b[1] - a[1]
        ln = math.hypot(ex, ey)
        if ln == 0:
            continue
        w = max(abs((p[0] - a[0]) * ey - (p[1] - a[1]) * ex) / ln for p in poly)
        best = min(best, w)
    return best


def _ccw(poly):
    a = sum(poly[i][0] * poly[(i + 1) % len(poly)][1] - poly[(i + 1) % len(poly)][0] * poly[i][1] for i in range(len(poly)))
    return [list(p) for p in (poly if a > 0 else poly[::-1])]


def inside_convex(poly, pts, slack=1e-6):
    """True where pts lie inside or on the convex polygon of either orientation (distance slack in metres)"""
    poly = _ccw(poly)
    pts = np.asarray(pts, dtype=float).reshape(-1, 2)
    ok = np.ones(len(pts), dtype=bool)
    n = len(poly)
    for i in range(n):
        a, b = poly[i], poly[(i + 1) % n]
        ex, ey = b[0] - a[0], b[1] - a[1]
        ln = math.hypot(ex, ey)
        if ln == 0:
            continue
        d = ((pts[:, 0] - a[0]) * ey - (pts[:, 1] - a[1]) * ex) / ln  # > 0 means to the right of a->b = outside for ccw
        ok &= d <= slack
    return ok


def strictly_inside_convex(poly, pts, margin=1e-6):
    poly = _ccw(poly)
    pts = np.asarray(pts, dtype=float).reshape(-1, 2)
    ok = np.ones(len(pts), dtype=bool)
    n = len(poly)
    for i in range(n):
        a, b = poly[i], poly[(i + 1) % n]
        ex, ey = b[0] - a[0], b[1] - a[1]
        ln = math.hypot(ex, ey)
        d = ((pts[:, 0] - a[0]) * ey - (pts[:, 1] - a[1]) * ex) / ln
        ok &= d < -margin
    return ok


def nn_min(pts):
    a = np.asarray(pts, dtype=float).reshape(-1, 2)
    if len(a) < 2:
        return float("inf")
    d, _ = cKDTree(a).query(a, k=2)
    return float(d[:, 1].min())


def lot_coords(case):
    s, off = case["scale"], case["offset"]
    lot = [[s * x + off, s * y + off] for x, y in case["poly"]]
    return lot[::-1] if case.get("cw") else lot  # the lattice polygons are counter-clockwise; cw = the same outline listed clockwise


def gen_once(lot, spacing, rot_deg, nogo=None):
    field, ng = _rw.gen_shape(lot, [nogo] if nogo else None)
    return _rw.gen_borehole_config(field, spacing, spacing, no_go=ng, rotate=rot_deg * math.pi / 180.0)


def rows_along_an_edge(lot, rot_deg):
    """some edge of the lot is parallel (within 1e-4 deg) to the row direction"""
    n = len(lot)
    for i in range(n):
        a, b = lot[i], lot[(i + 1) % n]
        ang = math.degrees(math.atan2(b[1] - a[1], b[0] - a[0]))
        d = (ang - rot_deg) % 180.0
        if min(d, 180.0 - d) < 1e-4:
            return True
    return False


def row_through_vertex(lot, spacing, rot_deg):
    """degenerate geometry: some row of the documented construction (rows spread evenly over the lot's extent normal to the row
    direction, floor(extent / spacing) of them) passes exactly through a vertex that is not the single lowest / highest one"""
    if rot_deg is None:
        return False
    r = math.radians(rot_deg)
    nx, ny = -math.sin(r), math.cos(r)
    lv = [p[0] * nx + p[1] * ny for p in lot]
    lo, hi = min(lv), max(lv)
    d = hi - lo
    n = int(d // spacing) if spacing > 0 else 0
    tol = 1e-7 * max(1.0, d)
    if sum(1 for x in lv if abs(x - lo) < tol) > 1 or sum(1 for x in lv if abs(x - hi) < tol) > 1:
        return True  # the first or last row runs along an edge / through two vertices
    if n < 1:
        return False
    pitch = d / n
    for x in lv:
        if abs(x - lo) < tol or abs(x - hi) < tol:
            continue
        k = (x - lo) / pitch
        if abs(k - round(k)) * pitch < tol:
            return True
    return False


def check_field(res, case, lot, pts, spacing, what, nogo=None, check_spacing=True, rot_deg=None):
    pts = np.asarray(pts, dtype=float).reshape(-1, 2)
    if len(pts) == 0:
        res["violations"].append(core.viol("empty_field", case, msg=f"{what}: no borehole generated", row_through_vertex=row_through_vertex(lot, spacing, rot_deg)))
        return
    ok = inside_convex(lot, pts)
    if not ok.all():
        p = pts[~ok][0]
        res["violations"].append(core.viol("borehole_outside_lot", dict(case, point=[float(p[0]), float(p[1])]),
                                           msg=f"{what}: borehole ({p[0]:.6f}, {p[1]:.6f}) lies outside the outline {lot}", what=what))
    if nogo is not None:
        bad = strictly_inside_convex(nogo, pts)
        if bad.any():
            p = pts[bad][0]
            res["violations"].append(core.viol("borehole_inside_no_go", dict(case, point=[float(p[0]), float(p[1])]),
                                               msg=f"{what}: borehole ({p[0]:.6f}, {p[1]:.6f}) lies strictly inside the no-go zone {nogo}", what=what))
    if check_spacing and nogo is None:
        d = nn_min(pts)
        if d < spacing * (1 - 1e-9):
            res["violations"].append(core.viol("spacing_below_target", case, observed=d, expected=spacing,
                                               msg=f"{what}: nearest-neighbour distance {d:.6f} m below the target spacing {spacing}",
                                               rows_vertical=(rot_deg is not None and abs(abs(rot_deg) - 90.0) < 1e-4),
                                               rows_along_an_edge=(rot_deg is not None and rows_along_an_edge(lot, rot_deg)),
                                               row_through_vertex=row_through_vertex(lot, spacing, rot_deg)))


def run_single(case, res):
    """one lot, one spacing: every single rotation; optional no-go; translation equivariance at two rotations"""
    lot = lot_coords(case)
    spacing = case["spacing"]
    nogo = case.get("nogo")
    for rot in case["rots"]:
        res["evals"] += 1
        c1 = dict(case, rots=[rot])
        out, err = with_horizon(gen_once, lot, spacing, rot, nogo)
        if err == "timeout":
            res["violations"].append(core.viol("does_not_terminate", c1, msg=f"gen_borehole_config did not finish within {HORIZON_S} s of CPU time: lot {lot}, spacing {spacing}, rotation {rot} deg",
                                               rotation=rot, touches_y_axis=min(p[0] for p in lot) == 0.0, touches_x_axis=min(p[1] for p in lot) == 0.0))
            res.outcome("timeout")
            continue
        if err is not None:
            res["violations"].append(core.viol("generator_raised", c1, msg=f"gen_borehole_config raised {type(err).__name__}: {err} (lot {lot}, spacing {spacing}, rotation {rot})", exc=type(err).__name__, rotation=rot))
            res.outcome("raised")
            continue
        check_field(res, c1, lot, out, spacing, f"rotation {rot}", nogo=nogo, rot_deg=rot)
        res.outcome("generated")
        if rot != 0.0 or case["offset"] == 0:
            res["nontrivial"] += 1
    # one pair of shape objects used for every rotation in turn (as the optimisers do) gives the fields fresh objects give
    if case.get("reuse_shapes") and len(case["rots"]) > 1:
        field, ng = _rw.gen_shape(lot, [nogo] if nogo else None)
        for rot in list(case["rots"]) + list(case["rots"])[:1]:
            res["evals"] += 1
            f1, e1 = with_horizon(_rw.gen_borehole_config, field, spacing, spacing, no_go=ng, rotate=rot * math.pi / 180.0)
            f0, e0 = with_horizon(gen_once, lot, spacing, rot, nogo)
            if e0 is None and (e1 is not None or np.asarray(f0).shape != np.asarray(f1).shape or not np.array_equal(np.asarray(f0, dtype=float), np.asarray(f1, dtype=float))):
                res["violations"].append(core.viol("reused_shapes_change_field", dict(case, rots=case["rots"][:case["rots"].index(rot) + 1]), msg=f"lot {lot}, spacing {spacing}: with the shape objects used for earlier rotations, "
                                                   f"rotation {rot} gives {'an error ' + str(e1) if e1 is not None else str(len(f1)) + ' boreholes'}; fresh shape objects give {len(f0)}", rotation=rot))
                break
        res.outcome("reused_shapes")
    # the same outline given with whole numbers as ints (as a JSON input file may) must give the same field
    if case.get("as_int") and all(float(v).is_integer() for p in lot for v in p):
        ilot = [[int(v) for v in p] for p in lot]
        for rot in case["rots"]:
            res["evals"] += 1
            f0, e0 = with_horizon(gen_once, lot, spacing, rot, nogo)
            f1, e1 = with_horizon(gen_once, ilot, spacing, rot, nogo)
            if e0 is None and (e1 is not None or np.asarray(f0).shape != np.asarray(f1).shape or not np.allclose(np.asarray(f0, dtype=float), np.asarray(f1, dtype=float), atol=1e-9, rtol=0)):
                res["violations"].append(core.viol("integer_outline_changes_field", dict(case, rots=[rot]), observed=[len(np.asarray(f0)), None if e1 is not None else len(np.asarray(f1))],
                                                   msg=f"lot {ilot} given as integers at rotation {rot}: field differs from the same lot given as floats ({'error ' + str(e1) if e1 is not None else str(len(f1)) + ' vs ' + str(len(f0)) + ' boreholes / positions differ'})", rotation=rot))
            res.outcome("int_outline")
    # translation: the same lot moved by (a, b) gives the same field moved by (a, b)
    if case.get("translate") and nogo is None and spacing not in (5.0, 10.0, 20.0):  # exact multiples of the lattice pitch are degenerate
        for rot in case["translate"]:
            a, b = 12.5, 3.25
            f0, e0 = with_horizon(gen_once, lot, spacing, rot)
            f1, e1 = with_horizon(gen_once, [[x + a, y + b] for x, y in lot], spacing, rot)
            res["evals"] += 1
            if e0 is None and e1 is None:
                p0 = np.asarray(f0, dtype=float).reshape(-1, 2) + np.array([a, b])
                p1 = np.asarray(f1, dtype=float).reshape(-1, 2)
                same = len(p0) == len(p1)
                if same and len(p0):
                    # one-to-one matching of the two point sets within 1e-4 m (a sort-and-zip comparison is fooled by round-off ties)
                    d, idx = cKDTree(p1).query(p0, k=1)
                    same = bool(np.all(d < 1e-4)) and len(set(idx.tolist())) == len(p0)
                if not same:
                    res["violations"].append(core.viol("translation_changes_field", dict(case, rots=[rot]), observed=[len(p0), len(p1)],
                                                       msg=f"lot {lot} at rotation {rot}: {len(p0)} boreholes, translated by ({a},{b}): {len(p1)} boreholes / different positions",
                                                       row_through_vertex=row_through_vertex(lot, spacing, rot)))


def run_rect(case, res):
    """axis-aligned rectangle at rotation 0: exactly the (floor(W/s)+1) x (floor(H/s)+1) lattice"""
    W, H, s, ox, oy = case["W"], case["H"], case["spacing"], case["ox"], case["oy"]
    lot = [[ox, oy], [ox + W, oy], [ox + W, oy + H], [ox, oy + H]]
    if case.get("extra"):
        # a survey point in the middle of a straight side (the outline is the same rectangle, listed with five corners)
        side, frac = case["extra"]
        a, b = lot[side], lot[(side + 1) % 4]
        lot = lot[: side + 1] + [[a[0] + frac * (b[0] - a[0]), a[1] + frac * (b[1] - a[1])]] + lot[side + 1:]
    res["evals"] += 1
    out, err = with_horizon(gen_once, lot, s, 0.0)
    if err is not None:
        res["violations"].append(core.viol("does_not_terminate" if err == "timeout" else "generator_raised", case, msg=f"rectangle {W}x{H} at ({ox},{oy}), spacing {s}: {err}", rotation=0.0))
        return
    nx, ny = int(W // s), int(H // s)
    got = sorted((round(float(x), 6), round(float(y), 6)) for x, y in np.asarray(out).reshape(-1, 2))
    # a side shorter than one spacing holds a single line of boreholes; where on the side is not stated, so it is read off the field
    xs = [round(ox + i * W / nx, 6) for i in range(nx + 1)] if nx else sorted({p[0] for p in got})[:1]
    ys = [round(oy + j * H / ny, 6) for j in range(ny + 1)] if ny else sorted({p[1] for p in got})[:1]
    want = sorted((x, y) for x in xs for y in ys)
    if got != want:
        res["violations"].append(core.viol("rectangle_lattice_wrong", case, observed=len(got), expected=len(want),
                                           msg=f"rectangle {W}x{H} at ({ox},{oy}), spacing {s}: {len(got)} boreholes, expected the {nx + 1}x{ny + 1} lattice with pitches {(W / nx) if nx else 0.0:.4f} x {(H / ny) if ny else 0.0:.4f} (0 = a single line)"))
    res.outcome("rectangle")
    res["nontrivial"] += 1


def sweep(start_deg, stop_deg, step_deg):
    """the documented rotation sweep in radians: rt = start; while rt < stop: ...; rt += step (the same accumulation as
    the documented loop, because the borehole count is discontinuous in the rotation when rows line up with an edge);
    rotations within 1e-9 rad of the end of the window are optional"""
    definite, optional = [], []
    rt = start_deg * math.pi / 180.0
    stop = stop_deg * math.pi / 180.0
    step = step_deg * math.pi / 180.0
    while rt < stop + 1e-9:
        (optional if abs(rt - stop) <= 1e-9 else definite).append(rt)
        rt += step
    return definite, optional


def gen_once_rad(lot, spacing, rot_rad):
    field, ng = _rw.gen_shape(lot, None)
    return _rw.gen_borehole_config(field, spacing, spacing, no_go=ng, rotate=rot_rad, intersection_tolerance=1e-5)


def run_opt(case, res):
    lot = lot_coords(case)
    s = case["spacing"]
    start, stop, step = case["window"]
    ratio = case.get("ratio")
    nogo = case.get("nogo")
    field, ng = _rw.gen_shape(lot, [nogo] if nogo else None)
    res["evals"] += 1
    nrot = max(1, int((stop - start) / step) + 1)
    if nogo and case.get("outline_used_before"):
        # the same outline object was optimised before without the zones (and with other zones): a study that adds exclusion zones
        other = [[x + 9.0, y - 6.0] for x, y in nogo]
        _, ng_other = _rw.gen_shape(lot, [other])
        for zz in (None, ng_other):
            if ratio is None:
                with_horizon(_rw.field_optimization_fr, s, step, field, ng_zones=zz, rotate_start=start * math.pi / 180, rotate_stop=stop * math.pi / 180, _budget=HORIZON_S + 0.4 * nrot)
            else:
                with_horizon(_rw.field_optimization_wp_space_fr, ratio, s, step, field, ng_zones=zz, rotate_start=start * math.pi / 180, rotate_stop=stop * math.pi / 180, _budget=HORIZON_S + 0.4 * nrot)
    if ratio is None:
        out, err = with_horizon(_rw.field_optimization_fr, s, step, field, ng_zones=ng, rotate_start=start * math.pi / 180, rotate_stop=stop * math.pi / 180, _budget=HORIZON_S + 0.4 * nrot)
    else:
        out, err = with_horizon(_rw.field_optimization_wp_space_fr, ratio, s, step, field, ng_zones=ng, rotate_start=start * math.pi / 180, rotate_stop=stop * math.pi / 180, _budget=HORIZON_S + 0.4 * nrot)
    if err is not None:
        kind = "does_not_terminate" if err == "timeout" else "generator_raised"
        res["violations"].append(core.viol(kind, case, msg=f"optimiser on lot {lot}, spacing {s}, window {case['window']}, ratio {ratio}: {err}", rotation=start,
                                           touches_y_axis=min(p[0] for p in lot) == 0.0, touches_x_axis=min(p[1] for p in lot) == 0.0,
                                           **({"exc": type(err).__name__} if err != "timeout" else {})))
        res.outcome("timeout" if err == "timeout" else "raised")
        return
    pts, name = out
    try:
        rot_name = float(name.split("_rt")[-1])
    except ValueError:
        rot_name = None
    check_field(res, case, lot, pts, s, f"optimiser {name}", nogo=nogo, check_spacing=(ratio is None), rot_deg=rot_name)
    if ratio is None and nogo is None:
        definite, optional = sweep(start, stop, step)
        sizes = {}
        for r in definite + optional:
            g, e = with_horizon(gen_once_rad, lot, s, r)
            if e is None:
                sizes[round(r * 180.0 / math.pi, 6)] = len(_rw.remove_duplicates(g, s * 1.2))
        if sizes:
            best_def = max((sizes[round(r * 180.0 / math.pi, 6)] for r in definite if round(r * 180.0 / math.pi, 6) in sizes), default=0)
            best_all = max(sizes.values())
            n = len(np.asarray(pts).reshape(-1, 2))
            if n not in (best_def, best_all) and not (best_def <= n <= best_all):
                res["violations"].append(core.viol("optimiser_not_densest", case, observed=n, expected=best_def,
                                                   msg=f"optimiser returned {n} boreholes ({name}); the densest rotation of the sweep {case['window']} yields {best_def} (per rotation: {sizes})"))
    res.outcome("optimised")
    res["nontrivial"] += 1


def zone_shape(kind, rho, s):
    if kind == "quad":
        return [(-rho, -0.8 * rho), (rho, -rho), (1.1 * rho, 0.9 * rho), (-0.9 * rho, rho)]
    if kind == "tri":
        return [(-rho, -rho), (rho, -0.6 * rho), (0.0, rho)]
    if kind == "thin":  # narrower than a spacing along the rows, long across them
        return [(-0.2 * s, -1.6 * rho), (0.2 * s, -1.6 * rho), (0.2 * s, 1.6 * rho), (-0.2 * s, 1.6 * rho)]
    if kind == "oct":
        return [(rho * math.cos(math.pi / 8 + k * math.pi / 4), rho * math.sin(math.pi / 8 + k * math.pi / 4)) for k in range(8)]
    raise core.HarnessError(kind)


def last_bit_edge(zones):
    """some zone edge is vertical / horizontal but for a round-off-sized difference (coordinates computed, not typed)"""
    for z in zones:
        for i in range(len(z)):
            a, b = z[i], z[(i + 1) % len(z)]
            dx, dy = abs(b[0] - a[0]), abs(b[1] - a[1])
            if 0 < dx < 1e-9 * dy or 0 < dy < 1e-9 * dx:
                return True
    return False


def _line_chords(poly, nx, ny, c, ux, uy):
    """parameters (along the row direction u) at which the line n.x = c crosses the polygon, paired into chords; second value:
    True if the line passes through a vertex of the polygon (within 1e-7 m)"""
    ts, through_vertex = [], False
    m = len(poly)
    ds = [nx * q[0] + ny * q[1] - c for q in poly]
    for i in range(m):
        a, b, da, db = poly[i], poly[(i + 1) % m], ds[i], ds[(i + 1) % m]
        if abs(da) < 1e-7:
            through_vertex = True
        if (da < 0) != (db < 0):
            f = da / (da - db)
            ts.append(ux * (a[0] + f * (b[0] - a[0])) + uy * (a[1] + f * (b[1] - a[1])))
    ts.sort()
    return [(ts[i], ts[i + 1]) for i in range(0, len(ts) - 1, 2)], through_vertex


def row_diagnosis(lot, zones, s, rot_deg, point):
    """for a misplaced borehole: is the row through it one (1) that passes through a vertex of a zone, or (2) on which a zone chord
    shorter than the spacing lies closer than (spacing - chord)/2 to the next crossing or to the end of the row (the widening of
    process_rows then moves a crossing past its neighbour)?"""
    r = math.radians(rot_deg)
    ux, uy, nx, ny = math.cos(r), math.sin(r), -math.sin(r), math.cos(r)
    c = nx * point[0] + ny * point[1]
    tp = ux * point[0] + uy * point[1]
    lot_chords, _ = _line_chords(lot, nx, ny, c, ux, uy)
    zone_chords, through = [], False
    for z in zones or []:
        ch, tv = _line_chords(z, nx, ny, c, ux, uy)
        zone_chords += ch
        through = through or tv
    zone_chords.sort()
    overshoot = False
    if lot_chords:
        lo, hi = min(lot_chords, key=lambda ch: 0.0 if ch[0] - 1.0 <= tp <= ch[1] + 1.0 else min(abs(tp - ch[0]), abs(tp - ch[1])))
        inside = [ch for ch in zone_chords if ch[1] > lo and ch[0] < hi]
        for i, (a, b) in enumerate(inside):
            ln = b - a
            if ln < s:
                left = a - (inside[i - 1][1] if i > 0 else lo)
                right = (inside[i + 1][0] if i + 1 < len(inside) else hi) - b
                if min(left, right) < (s - ln) / 2.0:
                    overshoot = True
    return {"row_through_zone_vertex": through, "widened_chord_overshoots": overshoot}


def place_zones(lot, spec, u_deg, s, unrounded=False):
    """spec: list of (shape kind, position along the arrangement axis in spacings, position across it in spacings, 'ccw'|'cw');
    the arrangement axis goes through the lot's centroid at angle u_deg"""
    cx = sum(p[0] for p in lot) / len(lot)
    cy = sum(p[1] for p in lot) / len(lot)
    u = math.radians(u_deg)
    cu, su = math.cos(u), math.sin(u)
    rho = 0.9 * s
    out = []
    for kind, along, across, orient in spec:
        zx, zy = cx + s * (along * cu - across * su), cy + s * (along * su + across * cu)
        # coordinates as an input file would carry them (4 decimals): no edge that is vertical but for the last bit
        z = [[zx + x * cu - y * su, zy + x * su + y * cu] for x, y in zone_shape(kind, rho, s)]
        if not unrounded:
            z = [[round(x, 4), round(y, 4)] for x, y in z]
        out.append(z if orient == "ccw" else z[::-1])
    return out


ZONE_SPECS = {
    "one_ccw": [("quad", 0.0, 0.0, "ccw")],
    "one_cw": [("quad", 0.0, 0.0, "cw")],
    "tri_cw": [("tri", 0.3, 0.2, "cw")],
    "two_left_right": [("quad", -1.7, 0.0, "ccw"), ("quad", 1.7, 0.1, "ccw")],
    "two_right_left": [("quad", 1.7, 0.1, "ccw"), ("quad", -1.7, 0.0, "ccw")],
    "two_mixed_orient": [("quad", 1.7, 0.1, "cw"), ("oct", -1.7, 0.0, "ccw")],
    "two_stacked": [("quad", 0.0, -1.6, "ccw"), ("tri", 0.2, 1.6, "ccw")],
    "three": [("tri", 2.9, 0.2, "ccw"), ("quad", -2.6, 0.0, "ccw"), ("oct", 0.2, -0.1, "ccw")],
    "three_rev": [("oct", 0.2, -0.1, "cw"), ("quad", -2.6, 0.0, "ccw"), ("tri", 2.9, 0.2, "ccw")],
    "thin_pair": [("thin", -0.3, 0.0, "ccw"), ("thin", 0.3, 0.0, "ccw")],
    "thin_pair_rev": [("thin", 0.3, 0.0, "ccw"), ("thin", -0.3, 0.0, "ccw")],
    "thin_then_wide": [("thin", -0.9, 0.0, "ccw"), ("quad", 0.7, 0.0, "ccw")],
}
NOGO_LOTS = {
    "rect_off": [[5.0, 5.0], [125.0, 5.0], [125.0, 95.0], [5.0, 95.0]],
    "rect_axes": [[0.0, 0.0], [120.0, 0.0], [120.0, 90.0], [0.0, 90.0]],
    "hexagon": [[10.0, 0.0], [100.0, 5.0], [130.0, 50.0], [105.0, 100.0], [25.0, 105.0], [0.0, 55.0]],
}


NOGO_LOTS["hexagon_cw"] = NOGO_LOTS["hexagon"][::-1]


def gen_multi(lot, spacing, rot_deg, zones, perimeter):
    field, ng = _rw.gen_shape(lot, zones)
    if perimeter:
        return _rw.two_space_gen_bhc(field, spacing, spacing, no_go=ng, rotate=rot_deg * math.pi / 180.0)
    return _rw.gen_borehole_config(field, spacing, spacing, no_go=ng, rotate=rot_deg * math.pi / 180.0)


def run_nogo(case, res):
    """several convex no-go zones strictly inside one lot, in every listing order / orientation of the menu, rows at several rotations
    (an arrangement axis along the rows makes one row cross all zones)"""
    lot = NOGO_LOTS[case["lot"]]
    s = case["spacing"]
    for u in case["axes"]:
        zones = place_zones(lot, ZONE_SPECS[case["zones"]], u, s, unrounded=bool(case.get("unrounded")))
        lbe = last_bit_edge(zones)
        if not all(strictly_inside_convex(lot, z, margin=1.0).all() for z in zones):
            res.bump("zones_not_strictly_inside_skipped")
            continue
        for rot in case["rots"]:
            for perimeter in (False, True):
                res["evals"] += 1
                c1 = dict(case, axes=[u], rots=[rot], perimeter=perimeter)
                out, err = with_horizon(gen_multi, lot, s, rot, zones, perimeter, _budget=2 * HORIZON_S)
                along = abs(((u - rot + 90.0) % 180.0) - 90.0) < 1e-9
                if err == "timeout":
                    res["violations"].append(core.viol("does_not_terminate", c1, msg=f"no-go zones {case['zones']} (axis {u} deg) in lot {case['lot']}, spacing {s}, rotation {rot}: generation did not "
                                                       f"finish within {2 * HORIZON_S} s of CPU time", nogo=case["zones"], rows_along_zone_axis=along, last_bit_edge=lbe))
                    res.outcome("timeout")
                    continue
                if err is not None:
                    res["violations"].append(core.viol("generator_raised", c1, msg=f"no-go zones {case['zones']} (axis {u} deg) in lot {case['lot']}, spacing {s}, rotation {rot}: {type(err).__name__}: {err}",
                                                       exc=type(err).__name__, nogo=case["zones"], last_bit_edge=lbe))
                    res.outcome("raised")
                    continue
                pts = np.asarray(out, dtype=float).reshape(-1, 2)
                ok = inside_convex(lot, pts)
                if len(pts) == 0:
                    res["violations"].append(core.viol("empty_field", c1, msg=f"no-go zones {case['zones']}: no borehole generated", nogo=case["zones"], last_bit_edge=lbe))
                elif not ok.all():
                    q = pts[~ok][0]
                    res["violations"].append(core.viol("borehole_outside_lot", dict(c1, point=[float(q[0]), float(q[1])]), msg=f"no-go {case['zones']}: borehole ({q[0]:.4f}, {q[1]:.4f}) outside the lot", what="nogo",
                                                       perimeter=perimeter, last_bit_edge=lbe, **row_diagnosis(lot, zones, s, rot, q)))
                for zi, z in enumerate(zones):
                    bad = strictly_inside_convex(_ccw(z), pts, margin=1e-6)
                    if bad.any():
                        q = pts[bad][0]
                        res["violations"].append(core.viol("borehole_inside_no_go", dict(c1, point=[float(q[0]), float(q[1])]),
                                                           msg=f"zones {case['zones']} (axis {u} deg), lot {case['lot']}, spacing {s}, rotation {rot}, perimeter={perimeter}: borehole "
                                                               f"({q[0]:.4f}, {q[1]:.4f}) lies strictly inside no-go zone #{zi} {z} ({int(bad.sum())} such boreholes)",
                                                           what="nogo-family", nogo=case["zones"], perimeter=perimeter, last_bit_edge=lbe, **row_diagnosis(lot, zones, s, rot, q)))
                        break
                res.outcome("nogo_generated")
                res["nontrivial"] += 1
    res["sample"] = dict(case)


DEMO_OUTLINE = [[19.46202532, 108.8860759], [19.67827004, 94.46835443], [24.65189873, 75.3164557], [37.19409283, 56.59493671], [51.68248945, 45.83544304],
                [84.33544304, 38.94936709], [112.0147679, 38.94936709], [131.0443038, 35.50632911], [147.2626582, 28.83544304], [160.8860759, 18.07594937],
                [171.6983122, 18.29113924], [167.157173, 72.94936709], [169.1033755, 80.48101266], [177.3206751, 99.63291139], [182.2943038, 115.7721519],
                [182.2943038, 121.3670886], [155.0474684, 118.5696203], [53.19620253, 112.3291139]]
DEMO_NOGO = [[74.38818565, 80.69620253], [73.0907173, 53.36708861], [93.85021097, 52.50632911], [120.0158228, 53.15189873], [121.5295359, 62.18987342],
             [128.8818565, 63.26582278], [128.8818565, 78.5443038], [129.0981013, 80.91139241], [108.5548523, 81.34177215], [104.0137131, 110.0],
             [95.58016878, 110.0], [95.7964135, 81.7721519]]


def boundary_distance(poly, pts):
    pts = np.asarray(pts, dtype=float).reshape(-1, 2)
    best = np.full(len(pts), np.inf)
    n = len(poly)
    for i in range(n):
        a = np.asarray(poly[i - 1], dtype=float)
        b = np.asarray(poly[i], dtype=float)
        ab = b - a
        t = np.clip(((pts - a) @ ab) / float(ab @ ab), 0.0, 1.0)
        best = np.minimum(best, np.hypot(*(pts - (a + t[:, None] * ab)).T))
    return best


def classify_points(poly, pts):
    """+1 clearly inside, -1 clearly outside, 0 within 1e-6 m of the boundary (any simple polygon; crossing number)"""
    pts = np.asarray(pts, dtype=float).reshape(-1, 2)
    d = boundary_distance(poly, pts)
    out = np.array([P.classify(poly, float(x), float(y)) for x, y in pts], dtype=int)
    out[d <= 1e-6] = 0
    return out


def run_demo(case, res):
    """the documented demo outline (not convex) with / without its no-go polygon: generation ends, stays on the land and out of the zone"""
    lot = DEMO_OUTLINE if not case.get("cw") else DEMO_OUTLINE[::-1]
    zones = [DEMO_NOGO] if case["nogo"] else None
    s = case["spacing"]
    if case.get("optimise"):
        start, stop, step = case["optimise"]
        field, ng = _rw.gen_shape(lot, zones)
        nrot = int((stop - start) / step) + 2
        res["evals"] += 1
        if case["perimeter"]:
            out, err = with_horizon(_rw.field_optimization_wp_space_fr, 0.8, s, step, field, ng_zones=ng, rotate_start=math.radians(start), rotate_stop=math.radians(stop), _budget=HORIZON_S + 0.5 * nrot)
        else:
            out, err = with_horizon(_rw.field_optimization_fr, s, step, field, ng_zones=ng, rotate_start=math.radians(start), rotate_stop=math.radians(stop), _budget=HORIZON_S + 0.5 * nrot)
        runs = [(f"optimiser {case['optimise']}", (out[0] if err is None else None), err)]
        if err is None and not case["perimeter"] and not case["nogo"]:
            definite, optional = sweep(start, stop, step)
            sizes = {}
            for r in definite + optional:
                g, e = with_horizon(gen_once_rad, lot, s, r)
                if e is None:
                    sizes[round(math.degrees(r), 6)] = len(_rw.remove_duplicates(g, s * 1.2))
            best_def = max((sizes.get(round(math.degrees(r), 6), 0) for r in definite), default=0)
            best_all = max(sizes.values(), default=0)
            n = len(np.asarray(out[0]).reshape(-1, 2))
            if sizes and not (best_def <= n <= best_all):
                res["violations"].append(core.viol("optimiser_not_densest", case, observed=n, expected=best_def, msg=f"demo outline, spacing {s}, sweep {case['optimise']}: optimiser returned {n} boreholes ({out[1]}), "
                                                   f"the densest tried rotation yields {best_def}"))
    else:
        runs = []
        for rot in case["rots"]:
            res["evals"] += 1
            out, err = with_horizon(gen_multi, lot, s, rot, zones, case["perimeter"], _budget=2 * HORIZON_S)
            runs.append((f"rotation {rot}", out, err))
    for what, out, err in runs:
        c1 = dict(case)
        if what.startswith("rotation"):
            c1["rots"] = [float(what.split()[1])]
        if err is not None:
            kind = "does_not_terminate" if err == "timeout" else "generator_raised"
            res["violations"].append(core.viol(kind, c1, msg=f"demo outline, spacing {s}, {what}, no-go {case['nogo']}, perimeter {case['perimeter']}: {err if err == 'timeout' else type(err).__name__ + ': ' + str(err)}",
                                               demo=True, **({"exc": type(err).__name__} if err != "timeout" else {})))
            res.outcome("timeout" if err == "timeout" else "raised")
            continue
        pts = np.asarray(out, dtype=float).reshape(-1, 2)
        if len(pts) == 0:
            res["violations"].append(core.viol("empty_field", c1, msg=f"demo outline, {what}: no borehole generated", demo=True))
            continue
        cl = classify_points(DEMO_OUTLINE, pts)
        if (cl < 0).any():
            q = pts[cl < 0][0]
            res["violations"].append(core.viol("borehole_outside_lot", dict(c1, point=[float(q[0]), float(q[1])]), msg=f"demo outline, spacing {s}, {what}, perimeter {case['perimeter']}: borehole ({q[0]:.4f}, {q[1]:.4f}) "
                                               f"lies outside the outline ({int((cl < 0).sum())} of {len(pts)})", what="demo", perimeter=case["perimeter"], last_bit_edge=False,
                                               **(row_diagnosis(DEMO_OUTLINE, zones, s, float(what.split()[1]), q) if what.startswith("rotation") else {})))
        if zones:
            cz = classify_points(DEMO_NOGO, pts)
            if (cz > 0).any():
                q = pts[cz > 0][0]
                res["violations"].append(core.viol("borehole_inside_no_go", dict(c1, point=[float(q[0]), float(q[1])]), msg=f"demo outline, spacing {s}, {what}, perimeter {case['perimeter']}: borehole ({q[0]:.4f}, {q[1]:.4f}) "
                                                   f"lies inside the demo no-go polygon ({int((cz > 0).sum())} of {len(pts)})", what="demo", nogo="demo_polygon", perimeter=case["perimeter"], last_bit_edge=False,
                                                   **(row_diagnosis(DEMO_OUTLINE, zones, s, float(what.split()[1]), q) if what.startswith("rotation") else {})))
        res.outcome("demo_generated")
        res["nontrivial"] += 1
    res["sample"] = dict(case)


def ngon_lot(n, phi_deg, offset, cw):
    """n points on an ellipse (55 x 38 m half axes, tilted by phi) at uneven angles: strictly convex, 3 decimals, touching the axes when offset = 0"""
    phi = math.radians(phi_deg)
    pts = []
    for k in range(n):
        th = 2 * math.pi * (k + 0.23 * ((k * 7) % 5 - 2) / 2.0) / n
        x, y = 55.0 * math.cos(th), 38.0 * math.sin(th)
        pts.append((x * math.cos(phi) - y * math.sin(phi), x * math.sin(phi) + y * math.cos(phi)))
    mx, my = min(p[0] for p in pts), min(p[1] for p in pts)
    lot = [[round(x - mx + offset, 3), round(y - my + offset, 3)] for x, y in pts]
    return lot[::-1] if cw else lot


def run_ngon(case, res):
    lot = ngon_lot(case["n"], case["phi"], case["offset"], case["cw"])
    c = {"kind": "single", "poly": lot, "scale": 1.0, "offset": 0.0, "spacing": case["spacing"], "rots": case["rots"], "translate": [15.0] if case.get("translate") else None}
    run_single(c, res)
    res.outcome("ngon")
    res["sample"] = dict(case)


def run_far(case, res):
    """the same lot far from the origin (site coordinates in a national grid): generation ends, stays inside, and is the rigid
    translate of the field generated near the origin"""
    lot0 = lot_coords(case)
    s, rot = case["spacing"], case["rot"]
    tx, ty = case["shift"]
    lot1 = [[x + tx, y + ty] for x, y in lot0]
    res["evals"] += 1
    f1, e1 = with_horizon(gen_once, lot1, s, rot, _budget=2 * HORIZON_S)
    if e1 is not None:
        kind = "does_not_terminate" if e1 == "timeout" else "generator_raised"
        res["violations"].append(core.viol(kind, case, msg=f"lot {lot0} shifted by {case['shift']}, spacing {s}, rotation {rot}: {e1 if e1 == 'timeout' else type(e1).__name__ + ': ' + str(e1)}",
                                           rotation=rot, far=True, **({"exc": type(e1).__name__} if e1 != "timeout" else {})))
        res.outcome("timeout" if e1 == "timeout" else "raised")
        return
    mag = max(abs(tx), abs(ty), 1.0)
    slack = max(1e-6, 1e-9 * mag)
    p1 = np.asarray(f1, dtype=float).reshape(-1, 2)
    ok = inside_convex(lot1, p1, slack=slack)
    if len(p1) == 0 or not ok.all():
        res["violations"].append(core.viol("borehole_outside_lot", case, msg=f"lot shifted by {case['shift']}: {int((~ok).sum())} of {len(p1)} boreholes outside", what="far"))
    d = nn_min(p1)
    if d < s * (1 - 1e-6):
        res["violations"].append(core.viol("spacing_below_target", case, observed=d, expected=s, msg=f"lot shifted by {case['shift']}: nearest-neighbour distance {d:.6f} below {s}",
                                           rows_vertical=abs(abs(rot) - 90.0) < 1e-4, rows_along_an_edge=rows_along_an_edge(lot0, rot), row_through_vertex=row_through_vertex(lot0, s, rot), far=True))
    if case.get("compare"):
        f0, e0 = with_horizon(gen_once, lot0, s, rot)
        if e0 is None:
            p0 = np.asarray(f0, dtype=float).reshape(-1, 2) + np.array([tx, ty])
            same = len(p0) == len(p1)
            if same and len(p0):
                dd, idx = cKDTree(p1).query(p0, k=1)
                same = bool(np.all(dd < 1e-4 + 1e-9 * mag)) and len(set(idx.tolist())) == len(p0)
            if not same:
                res["violations"].append(core.viol("translation_changes_field", case, observed=[len(p0), len(p1)], msg=f"lot {lot0} at rotation {rot}: {len(p0)} boreholes near the origin, "
                                                   f"{len(p1)} / different positions when shifted by {case['shift']}", row_through_vertex=row_through_vertex(lot0, s, rot), far=True))
    res.outcome("far_generated")
    res["nontrivial"] += 1
    res["sample"] = dict(case)


def run_case(case):
    res = core.Result(evals=0)
    k = case.get("kind")
    if k == "nogo":
        run_nogo(case, res)
    elif k == "demo":
        run_demo(case, res)
    elif k == "ngon":
        run_ngon(case, res)
    elif k == "far":
        run_far(case, res)
    elif k == "single":
        run_single(case, res)
    elif k == "rect":
        run_rect(case, res)
    elif k == "opt":
        run_opt(case, res)
    elif k == "chunk":
        polys = convex_polygons()
        for pi in case["polys"]:
            base = polys[pi]
            for variant in case["variants"]:
                poly = base if variant == "hull" else with_edge_points(base)
                if variant == "edge" and len(poly) == len(base):
                    continue
                for scale in case["scales"]:
                    for off in case["offsets"]:
                        w = min_width(poly) * scale
                        for s in case["spacings"]:
                            if w < 2 * s:
                                res.bump("lot_too_thin_skipped")
                                continue
                            c = {"kind": "single", "poly": [list(p) for p in poly], "scale": scale, "offset": off, "spacing": s, "rots": case["rots"],
                                 "translate": case.get("translate"), "as_int": case.get("as_int", False), "reuse_shapes": case.get("as_int", False)}
                            run_single(c, res)
                            if case.get("cw_too") and off == case["offsets"][-1]:
                                run_single(dict(c, cw=True, translate=None, as_int=False), res)
                                res.outcome("clockwise_outline")
                            if res["sample"] is None:
                                res["sample"] = c
    else:
        raise core.HarnessError(f"unknown case kind {k}")
    return res


INNER_NOGO = {20.0: [[24.0, 22.0], [33.0, 23.0], [34.0, 31.0], [25.0, 30.0]], 33.3: [[38.0, 36.0], [52.0, 37.0], [53.0, 50.0], [39.0, 49.0]]}


def main(run: core.Run, only=None):
    quick = run.tier == "quick"
    polys = convex_polygons()
    npoly = len(polys)
    stride = 8 if quick else 1
    idx = list(range(0, npoly, stride))
    chunks = []
    step = 4
    for i in range(0, len(idx), step):
        chunks.append({"kind": "chunk", "polys": idx[i:i + step], "variants": ["hull"] if quick else ["hull", "edge"], "scales": [20.0] if quick else [20.0, 33.3],
                       "offsets": [0.0, 7.5] if not (i % (2 * step) == 0) else [0.0, 7.5, 3.0], "spacings": [7.3] if quick else [5.3, 7.3, 10.0, 11.9, 17.0, 23.0], "rots": ROTS if not quick else [-90.0, -45.0, 0.0, 30.0, 75.0],
                       "translate": [0.0, 30.0] if i % (4 * step) == 0 else None, "as_int": i % (2 * step) == 0, "cw_too": (i // step) % (3 if quick else 2) == 1})
    run.drive(chunks, family="single-rotation")
    rects = []
    for W in (20.0, 25.0, 33.3, 40.0, 47.0, 60.0, 65.0, 80.5):
        for H in (20.0, 25.0, 33.3, 47.0, 50.5):
            for s in (5.0, 7.5, 10.0) if not quick else (10.0,):
                for ox, oy in ((0.0, 0.0), (7.5, 3.0)):
                    if W >= 2 * s and H >= 2 * s:
                        rects.append({"kind": "rect", "W": W, "H": H, "spacing": s, "ox": ox, "oy": oy})
    # strips: a side of exactly one spacing (two lines of boreholes), of 1.5 spacings (two), of 0.75 spacings (one)
    for s in (7.5, 10.0) if quick else (5.0, 6.0, 7.5, 10.0, 12.5):
        for f in (1.0, 1.5, 0.75):
            for other in (41.0, 4 * s + 7.0):
                for ox, oy in ((0.0, 0.0), (7.5, 3.0)):
                    rects.append({"kind": "rect", "W": f * s, "H": other, "spacing": s, "ox": ox, "oy": oy})
                    rects.append({"kind": "rect", "W": other, "H": f * s, "spacing": s, "ox": ox, "oy": oy})
    # sizes and spacings that are not round numbers (the last row is reached by accumulating the row step and lands within round-off of the far side)
    for W, H, s_ in ((120.5, 80.25, 7.0), (80.25, 120.5, 7.0), (47.3, 33.9, 7.3), (91.7, 64.1, 10.0)) if quick else \
            [(W, H, s_) for W in (120.5, 80.25, 47.3, 91.7, 33.9) for H in (80.25, 64.1, 33.9, 120.5) for s_ in (7.0, 7.3, 10.0, 12.5)]:
        for ox, oy in ((0.0, 0.0), (7.5, 3.0), (13.37, 21.9)):
            if W >= 2 * s_ and H >= 2 * s_:
                rects.append({"kind": "rect", "W": W, "H": H, "spacing": s_, "ox": ox, "oy": oy})
    rects += [dict(r, extra=[side, frac]) for r in rects[:: (7 if quick else 2)] if r["W"] >= 2 * r["spacing"] and r["H"] >= 2 * r["spacing"]
              for side in (0, 1, 2, 3) for frac in (0.5, 0.37)]
    run.drive(rects, family="rectangles")
    opts = []
    windows = [(-90.0, 90.0, 15.0), (-90.0, 0.0, 5.0), (0.0, 90.0, 15.0), (-30.0, 30.0, 5.0), (0.0, 10.0, 4.0), (-10.0, 10.0, 3.0)]
    if not quick:
        windows += [(-90.0, 90.0, 5.0), (-90.0, 0.0, 0.5), (-20.0, 20.0, 0.5)]
    sel = idx[:: (9 if quick else 40)]
    for pi in sel:
        for scale in (20.0,) if quick else (20.0, 33.3):
            for off in (0.0, 7.5):
                for w in windows:
                    for ratio in (None, 0.8):
                        poly = polys[pi]
                        if min_width(poly) * scale < 14.6:
                            continue
                        opts.append({"kind": "opt", "poly": [list(p) for p in poly], "scale": scale, "offset": off, "spacing": 7.3, "window": list(w), "ratio": ratio})
    # rotated rectangles: the densest rotation is the last one of a window that is not a multiple of the step
    for (W, H) in ((65.0, 47.0), (80.5, 50.5)):
        th = 8.0 * math.pi / 180
        c, s_ = math.cos(th), math.sin(th)
        rect = [[0, 0], [W, 0], [W, H], [0, H]]
        poly = [[x * c - y * s_ + 30.0, x * s_ + y * c + 5.0] for x, y in rect]
        for w in ((0.0, 10.0, 4.0), (-10.0, 10.0, 3.0), (0.0, 12.0, 4.0)):
            for ratio in (None, 0.8):
                opts.append({"kind": "opt", "poly": poly, "scale": 1.0, "offset": 0.0, "spacing": 10.0, "window": list(w), "ratio": ratio})
    # no-go zone strictly inside
    for pi in sel[:: 2]:
        for scale in (20.0, 33.3):
            poly = polys[pi]
            lot = [[scale * x + 7.5, scale * y + 7.5] for x, y in poly]
            ng = INNER_NOGO[scale]
            if all(strictly_inside_convex(lot, ng, margin=1.0)):
                for ratio in (None, 0.8):
                    opts.append({"kind": "opt", "poly": [list(p) for p in poly], "scale": scale, "offset": 7.5, "spacing": 10.0 if scale == 20.0 else 12.0,
                                 "window": [-90.0, 90.0, 30.0], "ratio": ratio, "nogo": ng})
                    opts.append(dict(opts[-1], outline_used_before=True))
    run.drive(opts, family="optimisers")
    nogos = [{"kind": "nogo", "lot": lot, "zones": z, "spacing": sp, "axes": [0.0, 30.0, 90.0], "rots": [-90.0, -45.0, 0.0, 30.0, 75.0] if quick else ROTS}
             for lot in NOGO_LOTS for z in ZONE_SPECS for sp in ((7.3,) if quick else (5.3, 7.3, 10.0, 11.9))]
    nogos += [{"kind": "nogo", "lot": lot, "zones": z, "spacing": 7.3, "axes": [0.0, 30.0], "rots": [-45.0, 0.0, 30.0, 75.0], "unrounded": True}
              for lot in ("rect_off", "rect_axes") for z in ("two_mixed_orient", "three", "three_rev", "one_ccw")]
    run.drive(nogos, family="no-go-zones")
    ngons = [{"kind": "ngon", "n": n, "phi": phi, "offset": off, "cw": cw, "spacing": sp, "rots": [-90.0, -45.0, 0.0, 30.0, 75.0] if quick else ROTS, "translate": (n % 2 == 0 and not cw)}
             for n in (9, 10, 11, 12) for phi in (0.0, 20.0) for off in (0.0, 7.5) for cw in (False, True) for sp in ((7.3,) if quick else (5.3, 7.3, 11.9, 17.0, 23.0))]
    run.drive(ngons, family="ngons-9-to-12")
    demos = [{"kind": "demo", "spacing": sp, "nogo": ng, "perimeter": per, "cw": cw, "rots": [-90.0, -45.0, 0.0, 30.0, 75.0] if quick else [float(r) for r in range(-90, 91, 5)]}
             for sp in ((10.0, 15.1) if quick else (10.0, 12.5, 15.1, 17.3, 20.0)) for ng in (False, True) for per in (False, True) for cw in (False, True)]
    demos += [{"kind": "demo", "spacing": sp, "nogo": ng, "perimeter": per, "optimise": list(w)}
              for sp in ((15.1,) if quick else (10.0, 15.1, 20.0)) for ng in (False, True) for per in (False, True)
              for w in (((-90.0, 0.0, 5.0),) if quick else ((-90.0, 0.0, 0.5), (-90.0, 90.0, 5.0), (-20.0, 20.0, 1.5)))]
    run.drive(demos, family="demo-outline", chunksize=1)
    fars = []
    for pi in idx[:: (60 if quick else 12)]:
        for shift in ([1000.0, 2000.0], [25000.0, 8000.0], [500000.0, 4100000.0]):
            for rot in (0.0, 30.0, -90.0) if quick else ROTS:
                poly = polys[pi]
                if min_width(poly) * 20.0 >= 14.6:
                    fars.append({"kind": "far", "poly": [list(p) for p in poly], "scale": 20.0, "offset": 7.5, "spacing": 7.3, "rot": rot, "shift": shift, "compare": True})
    run.drive(fars, family="far-from-origin")
    return run.finish(
        rule="strictly convex lattice lots (every stride-th of 2719) x scale x offset x spacing x single rotations; axis-aligned rectangles; "
             "optimisers over rotation windows with / without perimeter ratio and no-go zone (also on an outline object optimised before with other zones); strips with a side of 0.75 / 1 / 1.5 spacings; "
             "several no-go zones (12 arrangements x 3 axes x rotations x perimeter on/off, 4 lots); n-gons with 9-12 vertices; the documented demo outline with its no-go polygon; lots far from the origin; "
             "shape objects reused across rotations; one evaluation = one generator or optimiser "
             "call under a CPU-time horizon; non-trivial = rotated rows, or a lot touching the axes, rectangles, optimiser runs",
        bounds={"convex_lattice_polygons": npoly, "stride": stride, "scales_m": [20.0] if quick else [20.0, 33.3], "offsets_m": [0.0, 7.5],
                "single_rotations_deg": ROTS, "cpu_horizon_s": HORIZON_S},
        assumptions=["outlines are listed counter-clockwise, and every second / third chunk of lots also clockwise", "lattice lots narrower than two spacings are skipped and counted (narrow lots are covered by the strips of the rectangle family)",
                     "rotations within 1e-9 degree of the end of a window may or may not be tried (float accumulation in the sweep)",
                     "spacing is asserted only without perimeter spacing and without no-go zones, as the property states"],
        require_outcomes=("generated", "rectangle", "optimised", "nogo_generated", "far_generated", "clockwise_outline", "ngon", "demo_generated"),
    )
