"""C04 - polygon-constrained candidate fields: inside the property, outside no-go zones, nothing clearly valid dropped, sorted.

Alphabet : property outline = every simple polygon with 3..5 (thorough: ..6 by class) vertices on the lattice {0,10,20,30}^2 m
           (canonical start, both orientations), optionally a second outline (10 m square at 9 positions); no-go zones = none /
           one / two out of 12 lattice shapes; spacing triples (b_min, b_max_x, b_max_y) from 4 values.
Oracle   : crossing-number classification with exact rational fallback of every grid borehole of the candidate grid
           (bi_rectangle_nested over the oracle's own bounding box) against every polygon; the tool's documented on-edge metric
           (detour |PA|+|PB|-|AB| < 0.01) with a don't-care band.
"""
from __future__ import annotations

from fractions import Fraction
from itertools import permutations
from math import sqrt

from vf import core
from vf.oracles import polygon as P

PTS = [(x, y) for x in range(4) for y in range(4)]
SCALE = 10.0
TOL = 0.01
BAND = 1.0e-6  # detours this close to the tolerance are "don't care"
SPACINGS = [(2.5, 5.0, 5.0), (3.0, 7.0, 10.0), (5.0, 10.0, 10.0), (3.3, 6.1, 7.5)]
NOGO = [
    [[10, 10], [20, 10], [20, 20], [10, 20]], [[0, 0], [10, 0], [10, 10], [0, 10]], [[20, 0], [30, 0], [30, 30], [20, 30]],
    [[5, 5], [25, 5], [25, 15], [5, 15]], [[0, 0], [30, 0], [0, 30]], [[10, 10], [30, 10], [30, 30]],
    [[15, 0], [30, 15], [15, 30], [0, 15]], [[0, 20], [30, 20], [30, 25], [0, 25]], [[12.5, 2.5], [17.5, 2.5], [17.5, 27.5], [12.5, 27.5]],
    [[5, 5], [10, 5], [10, 10], [5, 10]], [[0, 0], [30, 30], [0, 30]], [[20, 20], [25, 20], [25, 25], [20, 25]],
    [[7.0, -1.0], [8.0, -1.0], [8.0, 31.0], [7.0, 31.0]], [[22.0, -1.0], [23.0, -1.0], [23.0, 31.0], [22.0, 31.0]],  # 1 m wide easements
]

_dom = None
_GRID = {}


def init_worker():
    global _dom
    from ghedesigner import domains

    if not hasattr(domains, "polygonal_land_constraint") or not hasattr(domains, "bi_rectangle_nested"):
        raise core.HarnessError("seam missing: domains.polygonal_land_constraint / bi_rectangle_nested")
    _dom = domains


def classify(poly, px, py):
    """(class, detour): class 1 inside / 0 exactly on the boundary / -1 outside; float filter with exact fallback"""
    n = len(poly)
    inside = False
    det = float("inf")
    exact_needed = False
    for i in range(n):
        ax, ay = poly[i - 1]
        bx, by = poly[i]
        d = sqrt((px - ax) ** 2 + (py - ay) ** 2) + sqrt((px - bx) ** 2 + (py - by) ** 2) - sqrt((ax - bx) ** 2 + (ay - by) ** 2)
        det = min(det, d)
        if d < 1e-7:
            exact_needed = True
    if exact_needed or any(abs(py - v[1]) < 1e-9 for v in poly):
        c = P.classify([(Fraction(x), Fraction(y)) for x, y in poly], Fraction(px), Fraction(py))
        return c, det
    for i in range(n):
        ax, ay = poly[i - 1]
        bx, by = poly[i]
        if (ay <= py < by) or (by <= py < ay):
            t = (bx - ax) * (py - ay) - (px - ax) * (by - ay)
            if abs(t) < 1e-7:
                c = P.classify([(Fraction(x), Fraction(y)) for x, y in poly], Fraction(px), Fraction(py))
                return c, det
            if by - ay < 0:
                t = -t
            if t > 0:
                inside = not inside
    return (1 if inside else -1), det


def verdict(p, props, nogos, cache):
    """'must' (clearly valid), 'no' (clearly invalid) or 'dc' (don't care: inside a tolerance band)"""
    key = (p[0], p[1])
    if key in cache:
        return cache[key]
    in_prop = "no"
    for poly in props:
        c, det = classify(poly, p[0], p[1])
        if c == 0 or det < TOL - BAND:
            r = "must"          # on the boundary within the documented tolerance: kept (keep_contour for the property)
        elif det <= TOL + BAND:
            r = "dc"
        else:
            r = "must" if c == 1 else "no"
        if r == "must":
            in_prop = "must"
            break
        if r == "dc":
            in_prop = "dc"
    out = in_prop
    if out != "no":
        for poly in nogos:
            c, det = classify(poly, p[0], p[1])
            if c == 0 or det < TOL - BAND:
                r = "no"        # on a no-go boundary within the documented tolerance: dropped
            elif det <= TOL + BAND:
                r = "dc"
            else:
                r = "no" if c == 1 else "ok"
            if r == "no":
                out = "no"
                break
            if r == "dc":
                out = "dc"
    cache[key] = out
    return out


def check_one(case, res):
    props = [[(float(x), float(y)) for x, y in poly] for poly in case["props"]]
    nogos = [[(float(x), float(y)) for x, y in poly] for poly in case["nogos"]]
    b_min, bx, by = case["spacing"]
    res["evals"] += 1
    xmax = max(x for poly in props for x, _ in poly)
    ymax = max(y for poly in props for _, y in poly)
    # the uncut candidate grid of this bounding box and spacing window, taken BEFORE the tool's design runs and frozen (tuples) the first
    # time this worker needs it: what a design leaves behind in the lists the generator hands out cannot reach the oracle
    gkey = (xmax, ymax, b_min, bx, by)
    if gkey not in _GRID:
        try:
            g0, _ = _dom.bi_rectangle_nested(xmax, ymax, b_min, bx, by)
            _GRID[gkey] = tuple(tuple(tuple((float(px), float(py)) for px, py in f) for f in dom) for dom in g0)
        except Exception:  # noqa: BLE001
            _GRID[gkey] = None
    try:
        # through the public path: geometry setter -> GeometricConstraintsBiRectangleConstrained -> DesignBiRectangleConstrained
        from vf import scenarios

        ng_in = [[list(p) for p in (poly[::-1] if case.get("nogo_cw") else poly)] for poly in nogos]
        m = scenarios.build_manager("constrained", geo={"b_min": b_min, "b_max_x": bx, "b_max_y": by, "property_boundary": [[list(p) for p in poly] for poly in props],
                                                        "no_go_boundaries": ng_in})
        nested = [list(d) for d in m._design.coordinates_domain_nested]
    except ValueError as e:
        # reorder_domain on an empty list: no candidate at all survives (e.g. everything is no-go)
        res.bump("generator_valueerror")
        nested = None
    except Exception as e:  # noqa: BLE001
        res["violations"].append(core.viol("generator_raised", case, msg=f"polygonal_land_constraint raised {type(e).__name__}: {e}", exc=type(e).__name__))
        return
    grid = _GRID[gkey]
    if grid is None:
        res.bump("no_grid")
        return
    cache = {}
    any_dc = False
    expected = []
    for dom in grid:
        exp_dom = []
        for f in dom:
            vs = [verdict(p, props, nogos, cache) for p in f]
            if "dc" in vs:
                any_dc = True
            exp_dom.append(([tuple(map(float, p)) for p, v in zip(f, vs) if v == "must"], [tuple(map(float, p)) for p, v in zip(f, vs) if v != "no"]))
        expected.append(exp_dom)
    # a list of which nothing survives the cut-outs is left out (the other lists still hold valid candidates)
    has_empty = any(not any(may for _, may in dom) for dom in expected)
    expected = [dom for dom in expected if any(may for _, may in dom)]
    if nested is None:
        if any(must for dom in expected for must, _ in dom) and not any_dc:
            res["violations"].append(core.viol("valid_boreholes_dropped", case, msg="polygonal_land_constraint produced no candidate list although clearly valid grid boreholes exist",
                                               what="all", some_list_empty=has_empty))
        return
    if len(nested) != len(expected):
        if any_dc:
            res["excluded"] += 1
            return
        res["violations"].append(core.viol("wrong_number_of_lists", case, msg=f"{len(nested)} candidate lists, expected {len(expected)} non-empty ones of the grid's {len(grid)}"))
        return
    if any_dc:
        res["excluded"] += 1
    for k, (dom, exp_dom) in enumerate(zip(nested, expected)):
        obs = [[tuple(map(float, p)) for p in f] for f in dom]
        counts = [len(f) for f in obs]
        if any(counts[i + 1] < counts[i] for i in range(len(counts) - 1)):
            res["violations"].append(core.viol("list_not_ordered", dict(case, where=k), msg=f"candidate list {k} is not ordered by borehole count: {counts}"))
        # (i) every kept borehole is admissible
        for f in obs:
            for p in f:
                if verdict(p, props, nogos, cache) == "no":
                    c_in = max((classify(poly, p[0], p[1])[0] for poly in props), default=-1)
                    res["violations"].append(core.viol("invalid_borehole_kept", dict(case, where=k, point=list(p)),
                                                       msg=f"list {k}: borehole {p} is kept but is {'outside every property outline' if c_in < 0 else 'inside or on a no-go zone'}",
                                                       why="outside_property" if c_in < 0 else "in_no_go"))
                    break
            else:
                continue
            break
        # (ii) nothing clearly valid dropped, (iii) exact list when there is no don't-care point
        if not any_dc:
            want = [m for m, _ in exp_dom if m]
            want = [w for _, w in sorted(enumerate(want), key=lambda t: (len(t[1]), t[0]))]
            if obs != want:
                missing = sum(len(w) for w in want) - sum(len(o) for o in obs)
                kind = "valid_boreholes_dropped" if missing > 0 else "candidate_list_differs"
                res["violations"].append(core.viol(kind, dict(case, where=k), msg=f"list {k}: {len(obs)} fields / {sum(map(len, obs))} boreholes, expected {len(want)} fields / {sum(map(len, want))} boreholes "
                                                                               f"(grid fields filtered by the oracle, empties dropped, stable sort by size)", what="list"))
        else:
            have = {}
            for f in obs:
                for p in f:
                    have[p] = have.get(p, 0) + 1
            need = {}
            for m, _ in exp_dom:
                for p in m:
                    need[p] = need.get(p, 0) + 1
            miss = [p for p, c in need.items() if have.get(p, 0) < c]
            if miss:
                res["violations"].append(core.viol("valid_boreholes_dropped", dict(case, where=k, point=list(miss[0])), msg=f"list {k}: clearly valid grid borehole {miss[0]} (and {len(miss) - 1} more) is missing", what="points"))
    nonconvex = any(not P.is_convex([(int(x), int(y)) for x, y in poly]) for poly in props)
    if nonconvex or nogos or len(props) > 1:
        res["nontrivial"] += 1
    res.outcome(("nogo%d" % len(nogos)) + ("_multi" if len(props) > 1 else ""))


def polygons(n, stride, offset):
    """canonical-start simple lattice polygons with n vertices, every `stride`-th starting at `offset`"""
    out = []
    k = 0
    for a in range(16):
        rest = [i for i in range(16) if i > a]
        for tail in permutations(rest, n - 1):
            seq = [PTS[a]] + [PTS[i] for i in tail]
            if not P.is_simple(seq):
                continue
            if k % stride == offset:
                out.append([[SCALE * x, SCALE * y] for x, y in seq])
            k += 1
    return out


def chamfer(poly, c=0.002):
    """every corner cut by c metres (a corner digitised twice): the outline gains edges shorter than the on-edge tolerance"""
    out = []
    n = len(poly)
    for i in range(n):
        p, a, b = poly[i], poly[i - 1], poly[(i + 1) % n]
        for q in (a, b):
            dx, dy = q[0] - p[0], q[1] - p[1]
            ln = (dx * dx + dy * dy) ** 0.5
            out.append([p[0] + c * dx / ln, p[1] + c * dy / ln])
    return out


def run_case(case):
    res = core.Result(evals=0)
    if "props" in case:
        check_one(case, res)
        return res
    polys = polygons(case["n"], case["stride"], case["offset"])[case["lo"]:case["hi"]]
    if case.get("chamfer"):
        polys = [chamfer(p) for p in polys]
    for poly in polys:
        for sp in case["spacings"]:
            for ng in case["nogo_sets"]:
                for second in case["seconds"]:
                    props = [poly] + ([second] if second else [])
                    c = {"props": props, "nogos": [NOGO[i] for i in ng], "spacing": list(SPACINGS[sp])}
                    check_one(c, res)
                    if ng and case.get("cw_too"):
                        c2 = dict(c, nogo_cw=True)  # the same no-go zones listed clockwise
                        check_one(c2, res)
                    if res["sample"] is None:
                        res["sample"] = c
    return res


def main(run: core.Run, only=None):
    quick = run.tier == "quick"
    squares = [[[x, y], [x + 10, y], [x + 10, y + 10], [x, y + 10]] for x in (0, 10, 20) for y in (0, 10, 20)]
    cases = []
    if quick:
        plan = [(3, 8, 1, [0, 1], [[], [0]], [None]), (4, 40, 3, [0, 3], [[], [3], [12, 13]], [None]), (5, 600, 5, [1], [[], [6]], [None, squares[8], squares[0]])]
    else:
        plan = [(3, 1, 0, [0, 1, 2, 3], [[], [0], [4, 9]], [None, squares[4]]), (4, 4, 1, [0, 1, 2, 3], [[], [3], [1, 11]], [None]),
                (4, 16, 2, [0, 3], [[7], [8], [2, 5], [12, 13]], [None, squares[0], squares[8]]), (5, 60, 7, [0, 1, 3], [[], [6], [10]], [None]),
                (6, 900, 11, [1, 2], [[], [3]], [None])]
    for n, stride, offset, sps, ngs, seconds in plan:
        total = len(polygons(n, stride, offset))
        step = 6
        for lo in range(0, total, step):
            cases.append({"n": n, "stride": stride, "offset": offset, "lo": lo, "hi": min(total, lo + step), "spacings": sps, "nogo_sets": ngs, "seconds": seconds,
                          "cw_too": (lo // step) % 2 == 0})
    run.drive(cases, family="lattice-outlines")
    # the same outlines with every corner digitised twice (2 mm apart): edges shorter than the on-edge tolerance
    dig = [dict(c, chamfer=True, cw_too=False) for c in cases[:: (3 if quick else 2)]]
    run.drive(dig, family="corners-digitised-twice")
    return run.finish(
        rule="property outlines = simple lattice polygons (canonical start, both orientations; thinned by a stated stride per vertex "
             "count) x spacing triples x no-go sets x optional second outline; one evaluation = one polygonal_land_constraint call whose "
             "every candidate list is compared with the oracle's filtered grid; non-trivial = non-convex outline, or a no-go zone, or "
             "two outlines; cases with a borehole inside a tolerance band are counted under excluded_boundary_cases and checked with "
             "the weaker must/may rule",
        bounds={"lattice_m": [0, 10, 20, 30], "plan(n,stride,offset,spacings,nogo,second)": [[p[0], p[1], p[2], p[3], p[4], len(p[5])] for p in plan], "edge_tolerance": TOL},
        assumptions=["the candidate grid is bi_rectangle_nested over the oracle's own bounding box [0,max x]x[0,max y] (C03 checks that generator)",
                     "on-edge = exactly on the boundary or detour |PA|+|PB|-|AB| < 0.01 (the tool's documented metric; for a 30 m edge that reaches 0.39 m sideways); detours within 1e-6 of 0.01 are don't-care"],
        require_outcomes=("nogo0", "nogo1"),
    )
