"""C18 - command-line exit status and validation verdict reflect the outcome.

Alphabet : the demo input files x every leaf key of every section x corruption operators {delete, string, null, list,
           negative, huge} x for the five case-insensitive names {unknown value, UPPER, lower, Title, mIxEd}, whole-section
           deletions; invocation modes {--validate-only, run with output dir, run without output dir, --convert IDF,
           --convert XYZ}; plus real designs on a small lot.
Oracle   : own section-by-section jsonschema verdict (vf/oracles/schema.py); exit status obtained exactly as the console
           script does (click standalone main -> SystemExit), and for a subset as a real subprocess.
"""
from __future__ import annotations

import copy
import io
import json
import os
import shutil
import subprocess
import sys
import tempfile
from contextlib import redirect_stderr, redirect_stdout
from pathlib import Path

from vf import core, scenarios
from vf.oracles import schema as SCH

OUTFILES = ("SimulationSummary.txt", "SimulationSummary.json", "TimeDependentValues.csv", "BoreFieldData.csv", "Loadings.csv",
            "Gfunction.csv")
NAMES = {("fluid", "fluid_name"), ("pipe", "arrangement"), ("geometric_constraints", "method"), ("design", "flow_type"),
         ("simulation", "timestep")}


def init_worker():
    import ghedesigner.manager as mg
    import ghedesigner.validate as va

    for mod, n in ((mg, "run_manager_from_cli"), (mg, "GHEManager"), (va, "validate_input_file")):
        if not hasattr(mod, n):
            raise core.HarnessError(f"seam missing: {mod.__name__}.{n}")


def demo_files():
    d = core.REPO / "demos"
    return sorted(p.name for p in d.glob("find_design_*.json"))


def load_base(name):
    inst = json.loads((core.REPO / "demos" / name).read_text())
    inst["loads"]["ground_loads"] = [0.0] * 8760
    return inst


def casings(s):
    return [s.upper(), s.lower(), s.title(), "".join(c.lower() if i % 2 else c.upper() for i, c in enumerate(s))]


def corruptions(inst):
    """yield (label, corrupted instance)"""
    yield ("none", copy.deepcopy(inst))
    for sec in SCH.SECTIONS:
        c = copy.deepcopy(inst)
        del c[sec]
        yield (f"del:{sec}", c)
        for key in list(inst[sec].keys()):
            ops = [("delete", None), ("string", "abc"), ("null", None), ("list", [1, 2]), ("negative", -1.0), ("huge", 1.0e12)]
            if sec == "loads":
                ops = [("delete", None), ("string", "abc"), ("null", None), ("short", [0.0] * 10), ("strings", ["a"] * 8760)]
            for op, val in ops:
                c = copy.deepcopy(inst)
                if op == "delete":
                    del c[sec][key]
                else:
                    c[sec][key] = val
                yield (f"{op}:{sec}.{key}", c)
            if (sec, key) in NAMES:
                c = copy.deepcopy(inst)
                c[sec][key] = "FOO"
                yield (f"unknown:{sec}.{key}", c)
                for v in casings(inst[sec][key]):
                    c = copy.deepcopy(inst)
                    c[sec][key] = v
                    yield (f"case:{sec}.{key}={v}", c)
    # optional names that are absent in the demo files
    if "timestep" not in inst["simulation"]:
        for v in casings("HYBRID") + ["FOO"]:
            c = copy.deepcopy(inst)
            c["simulation"]["timestep"] = v
            yield (f"add:simulation.timestep={v}", c)
    c = copy.deepcopy(inst)
    c["version"] = 2
    yield ("version:number", c)
    c = copy.deepcopy(inst)
    del c["version"]
    yield ("del:version", c)


def cli(args, block_design=True):
    """exit status of `ghedesigner <args>` exactly as the console script produces it"""
    import ghedesigner.manager as mg

    orig = mg.GHEManager.find_design
    started = {"n": 0}
    if block_design:
        def blocked(self, *a, **k):
            started["n"] += 1
            raise RuntimeError("DESIGN-STARTED (blocked by the harness: the input should have been rejected before)")
        mg.GHEManager.find_design = blocked
    out, err = io.StringIO(), io.StringIO()
    try:
        with redirect_stdout(out), redirect_stderr(err):
            try:
                mg.run_manager_from_cli.main(args=[str(a) for a in args], standalone_mode=True)
                code = 0  # not reached: standalone mode always raises SystemExit
            except SystemExit as e:
                code = 0 if e.code is None else (e.code if isinstance(e.code, int) else 1)
            except BaseException:  # noqa: BLE001  an uncaught exception ends the process with status 1
                code = 1
    finally:
        mg.GHEManager.find_design = orig
    return code, started["n"], err.getvalue()[-300:]


def validate_verdict(path):
    import ghedesigner.validate as va

    err = io.StringIO()
    try:
        with redirect_stderr(err), redirect_stdout(io.StringIO()):
            rc = va.validate_input_file(Path(path))
        return ("count", rc)
    except BaseException as e:  # noqa: BLE001
        return ("raised", type(e).__name__)


def run_file_chunk(case, res):
    name = case["file"]
    inst0 = load_base(name)
    tmp = Path(tempfile.mkdtemp(prefix="vf-c18-"))
    try:
        allc = list(corruptions(inst0))
        sel = allc[case["lo"]:case["hi"]]
        for label, inst in sel:
            single = {"file": name, "label": label}
            f = tmp / "in.json"
            f.write_text(json.dumps(inst))
            want = SCH.accepts(inst)
            has_all = all(s in inst for s in SCH.SECTIONS)
            res.outcome("reference_accepts" if want else "reference_rejects")
            if label != "none":
                res["nontrivial"] += 1
            # (a) validation verdict
            res["evals"] += 1
            kind, val = validate_verdict(f)
            tool_accepts = kind == "count" and val == 0
            if kind == "raised":
                res.bump("validator_raised")
            if has_all and tool_accepts != want:
                res["violations"].append(core.viol(
                    "validation_verdict_wrong", single, observed=[kind, val], expected="accept" if want else "reject",
                    msg=f"{name} [{label}]: validate_input_file -> {kind} {val}, reference verdict {'accept' if want else 'reject'}",
                    direction="accepts_invalid" if tool_accepts else "rejects_valid", op=label.split(":")[0]))
            # (b1) --validate-only
            res["evals"] += 1
            code, _, _ = cli(["--validate-only", f])
            if want and code != 0:
                res["violations"].append(core.viol("nonzero_exit_for_valid_file", single, observed=code, msg=f"{name} [{label}]: --validate-only exits {code} for a file the reference accepts", mode="validate-only"))
            if not want and code == 0:
                res["violations"].append(core.viol("zero_exit_for_invalid_file", single, observed=code, msg=f"{name} [{label}]: --validate-only exits 0 for a file that fails schema validation", mode="validate-only"))
            # (b2) plain run on files the reference rejects: must be non-zero, no output, design never started
            if not want:
                res["evals"] += 1
                outd = tmp / "out"
                shutil.rmtree(outd, ignore_errors=True)
                code, started, _ = cli([f, outd])
                produced = outd.exists() and any((outd / o).exists() for o in OUTFILES)
                if code == 0:
                    res["violations"].append(core.viol("zero_exit_for_invalid_file", single, observed=code, msg=f"{name} [{label}]: run exits 0 although the input fails schema validation (output written: {produced})", mode="run"))
                if started:
                    res["violations"].append(core.viol("design_started_on_invalid_file", single, msg=f"{name} [{label}]: the design was started on an input that fails schema validation", mode="run"))
        if res["sample"] is None and sel:
            res["sample"] = {"file": name, "labels": [l for l, _ in sel[:6]]}
    finally:
        shutil.rmtree(tmp, ignore_errors=True)


def run_modes(case, res):
    """option handling on a valid file: no output directory, unsupported conversion, IDF conversion"""
    name = case["file"]
    inst = load_base(name)
    tmp = Path(tempfile.mkdtemp(prefix="vf-c18-"))
    try:
        f = tmp / "in.json"
        f.write_text(json.dumps(inst))
        res["evals"] += 3
        code, started, _ = cli([f])
        if code == 0:
            res["violations"].append(core.viol("zero_exit_without_output", {"file": name, "mode": "no-output-dir"}, msg=f"{name}: run without an output directory exits 0 (no output produced)", mode="no-output-dir"))
        code, _, _ = cli(["--convert", "XYZ", f])
        if code == 0:
            res["violations"].append(core.viol("zero_exit_unsupported_option", {"file": name, "mode": "convert-XYZ"}, msg=f"{name}: --convert XYZ exits 0", mode="convert-XYZ"))
        # IDF conversion of something that is not a summary: no out.idf can be produced
        code, _, _ = cli(["--convert", "IDF", f])
        if code == 0 and not (tmp / "out.idf").exists():
            res["violations"].append(core.viol("zero_exit_without_output", {"file": name, "mode": "convert-IDF-bad"}, msg=f"{name}: --convert IDF on a non-summary file exits 0 without writing out.idf", mode="convert-IDF-bad"))
        res.outcome("option_modes")
        res["nontrivial"] += 1
    finally:
        shutil.rmtree(tmp, ignore_errors=True)


def small_valid_input(method, pipe):
    m = scenarios.build_manager(method, pipe=pipe, months=24, loads=_small_loads())
    tmp = Path(tempfile.mkdtemp(prefix="vf-c18-"))
    f = tmp / "in.json"
    m.write_input_file(f)
    return tmp, f


def _small_loads():
    from vf import loadgen

    return loadgen.atlanta_like(0.25)


def run_real(case, res):
    """a valid input: exit 0 iff the output files exist; also IDF conversion of the summary, and (optionally) a subprocess"""
    tmp, f = small_valid_input(case["method"], case["pipe"])
    try:
        inst = json.loads(f.read_text())
        if not SCH.accepts(inst):
            res.bump("tool_written_file_rejected_by_reference")  # C17's business; nothing to assert here
            return
        outd = tmp / "out"
        res["evals"] += 1
        if case.get("subprocess"):
            env = dict(os.environ)
            p = subprocess.run([sys.executable, "-c", "import sys; from ghedesigner.manager import run_manager_from_cli; sys.exit(run_manager_from_cli())",
                                str(f), str(outd)], capture_output=True, text=True, env=env, timeout=1800)
            code = p.returncode
        else:
            code, _, _ = cli([f, outd], block_design=False)
        have = [o for o in OUTFILES if (outd / o).exists()]
        complete = len(have) == len(OUTFILES)
        if code == 0 and not complete:
            res["violations"].append(core.viol("zero_exit_without_output", dict(case), msg=f"valid {case['method']}/{case['pipe']} run exits 0 but only {have} were written", mode="run"))
        if code != 0 and complete:
            res["violations"].append(core.viol("nonzero_exit_with_output", dict(case), observed=code, msg=f"valid {case['method']}/{case['pipe']} run wrote all outputs but exits {code}", mode="run"))
        res.outcome("real_run_exit_zero" if code == 0 else "real_run_exit_nonzero")
        if complete:
            res["evals"] += 1
            code, _, err = cli(["--convert", "IDF", outd / "SimulationSummary.json"])
            idf = (outd / "out.idf").exists()
            if (code == 0) != idf:
                res["violations"].append(core.viol("idf_exit_status_wrong", dict(case), observed=code, msg=f"--convert IDF exits {code}, out.idf written: {idf}", mode="convert-IDF"))
        if case.get("unsupported_option"):
            # an unsupported conversion format together with a valid input AND an output directory: the option is not honoured, so the
            # exit status must be non-zero whatever else the tool does (the design is allowed to run: it is real here, not blocked)
            for fmt in case["unsupported_option"]:
                res["evals"] += 1
                out2 = tmp / f"out_{fmt}"
                code, _, _ = cli(["--convert", fmt, f, out2], block_design=False)
                if code == 0:
                    res["violations"].append(core.viol("zero_exit_unsupported_option", dict(case, fmt=fmt), observed=code, msg=f"valid {case['method']}/{case['pipe']} input with --convert {fmt} and an output "
                                                       f"directory exits 0 (outputs written: {sorted(p.name for p in out2.iterdir()) if out2.exists() else []})", mode="convert-unsupported-with-output-dir"))
            res.outcome("unsupported_option_with_output_dir")
        if case.get("unwritable"):
            # the design succeeds but the output directory cannot be created (its parent is a regular file): no output -> non-zero
            res["evals"] += 1
            blocker = tmp / "a_regular_file"
            blocker.write_text("x")
            code, _, _ = cli([f, blocker / "out"], block_design=False)
            if code == 0:
                res["violations"].append(core.viol("zero_exit_without_output", dict(case), observed=code, msg=f"valid {case['method']}/{case['pipe']} run with an output path that cannot be created exits 0 (nothing written)", mode="unwritable-output"))
            res.outcome("unwritable_output_runs")
        res["nontrivial"] += 1
        res["sample"] = dict(case)
    finally:
        shutil.rmtree(tmp, ignore_errors=True)


def run_sequence(case, res):
    """several input files validated one after the other in ONE process (a batch script, a server): the verdict on each file is the
    reference's, whatever was validated before it"""
    tmp = Path(tempfile.mkdtemp(prefix="vf-c18-"))
    try:
        steps = []
        for name in case["files"]:
            inst = load_base(name)
            steps.append((name, "valid", inst))
        # ... and, last, the last file with one required geometry key removed
        name = case["files"][-1]
        bad = load_base(name)
        key = sorted(k for k in bad["geometric_constraints"] if k not in ("method",))[0]
        del bad["geometric_constraints"][key]
        steps.append((name, f"without geometric_constraints.{key}", bad))
        for k, (name, what, inst) in enumerate(steps):
            f = tmp / f"s{k}.json"
            f.write_text(json.dumps(inst))
            res["evals"] += 1
            want = SCH.accepts(inst)
            got = validate_verdict(f)
            ok = (got == ("count", 0)) == want
            code, _, _ = cli(["--validate-only", f])
            if not ok or (code == 0) != want:
                res["violations"].append(core.viol("validation_verdict_wrong", dict(case, upto=k + 1), observed=[list(got), code], expected=want,
                                                   msg=f"file #{k + 1} of the sequence {case['files']} ({name}, {what}): validate_input_file -> {got}, --validate-only exits {code}, reference verdict "
                                                       f"{'accept' if want else 'reject'}", direction="rejects_valid" if want else "accepts_invalid", op="sequence"))
                break
        res.outcome("file_sequences")
        res["nontrivial"] += 1
        res["sample"] = dict(case)
    finally:
        shutil.rmtree(tmp, ignore_errors=True)


def run_case(case):
    res = core.Result(evals=0)
    if case.get("kind") == "sequence":
        run_sequence(case, res)
        return res
    if "label" in case:  # single replay: recompute that one corruption
        inst0 = load_base(case["file"])
        allc = list(corruptions(inst0))
        idx = [i for i, (l, _) in enumerate(allc) if l == case["label"]]
        if not idx:
            raise core.HarnessError(f"unknown corruption label {case['label']}")
        run_file_chunk({"file": case["file"], "lo": idx[0], "hi": idx[0] + 1}, res)
    elif case.get("kind") == "modes" or case.get("mode") in ("no-output-dir", "convert-XYZ", "convert-IDF-bad"):
        run_modes(case, res)
    elif case.get("kind") == "real" or "method" in case:
        run_real(case, res)
    else:
        run_file_chunk(case, res)
    return res


def main(run: core.Run, only=None):
    files = demo_files()
    quick = run.tier == "quick"
    use = files[::3] if quick else files
    cases = []
    for name in use:
        n = len(list(corruptions(load_base(name))))
        step = 40
        for lo in range(0, n, step):
            cases.append({"file": name, "lo": lo, "hi": min(n, lo + step)})
    run.drive(cases, family="corruptions")
    run.drive([{"kind": "modes", "file": name} for name in use], family="option-modes")
    pick = [f for f in files if any(t in f for t in ("near_square_single", "rectangle_coaxial", "bi_rectangle_double", "rowwise", "bi_zoned", "near_square_coaxial", "constrained"))]
    seqs = [{"kind": "sequence", "files": [a, b]} for a in pick for b in pick if a != b]
    run.drive(seqs if not quick else seqs[::3], family="file-sequences")
    real = [{"kind": "real", "method": "nearsquare", "pipe": "single", "unwritable": True, "unsupported_option": ["EPJSON"] if quick else ["EPJSON", "XYZ", "json"]}, {"kind": "real", "method": "rectangle", "pipe": "coaxial", "subprocess": True}]
    if not quick:
        real += [{"kind": "real", "method": "birectangle", "pipe": "double_series"}, {"kind": "real", "method": "rowwise", "pipe": "single", "subprocess": True},
                 {"kind": "real", "method": "bizoned", "pipe": "single"}, {"kind": "real", "method": "constrained", "pipe": "double_parallel"}]
    run.drive(real, family="real-runs")
    return run.finish(
        rule="every corruption of every leaf key of the demo input files (delete / wrong type / null / negative / huge / unknown "
             "name / every letter-casing class) x modes {validate_input_file, --validate-only, run}; option handling; real runs; one "
             "evaluation = one validator call or one command-line invocation; non-trivial = corrupted file, option mode or real run",
        bounds={"demo_files": use, "real_runs": len(real)},
        assumptions=["exit status observed as SystemExit of click's standalone main(), which is what the console script does; two "
                     "real runs go through a real subprocess", "for inputs the reference rejects the design step is blocked by the "
                     "harness (it must never be reached)"],
        require_outcomes=("reference_accepts", "reference_rejects", "option_modes", "unsupported_option_with_output_dir", "file_sequences"),
    )
