"""C16 - point-in-polygon classification is exact.

Alphabet : every simple polygon with 3..6 vertices on the 4x4 lattice {0,1,2,3}^2, as a vertex *sequence*
           (every start vertex, both orientations; collinear consecutive vertices allowed), times the 81 probe
           points {-0.5,0,...,3.5}^2, under three affine images (identity, 7.3x+11.1, 0.37x).
Oracle   : exact integer crossing number + exact on-segment test on doubled coordinates (vf/oracles/polygon.py).
Bound    : quick = all sequences n<=4 + canonical-start sequences n=5; thorough = all sequences n<=6.
"""
from __future__ import annotations

from itertools import permutations

from vf import core
from vf.oracles import polygon as P

PTS = [(x, y) for x in range(4) for y in range(4)]  # index -> lattice vertex
S = 20000  # integer units per lattice unit (exact arithmetic on integers)
EPS = 8  # 0.0004 lattice units: below the 0.001 edge tolerance
BASE = [(x * S // 2, y * S // 2) for x in range(-1, 8) for y in range(-1, 8)]  # the 81 half-integer probes
PERT = [(0, EPS), (0, -EPS), (EPS, 0), (-EPS, 0)]
XFS = {
    "id": (1.0, 0.0),
    "a7.3+11.1": (7.3, 11.1),
    "s0.37": (0.37, 0.0),
}
TOL = 0.001  # default on_edge_tolerance of point_polygon_check
CONTAINERS = False  # set per case: also call the test with the outline / point in other containers

_ppc = None


def init_worker():
    global _ppc
    from ghedesigner import shape

    if not hasattr(shape, "point_polygon_check"):
        raise core.HarnessError("seam missing: ghedesigner.shape.point_polygon_check")
    _ppc = shape.point_polygon_check


def _xf(v, k):
    a, b = XFS[k]
    return a * v + b


def _dist_to_boundary(contour, fx, fy):
    best = float("inf")
    n = len(contour)
    for i in range(n):
        ax, ay = contour[i - 1]
        bx, by = contour[i]
        dx, dy = bx - ax, by - ay
        t = ((fx - ax) * dx + (fy - ay) * dy) / (dx * dx + dy * dy)
        t = 0.0 if t < 0 else 1.0 if t > 1 else t
        d = ((fx - ax - t * dx) ** 2 + (fy - ay - t * dy) ** 2) ** 0.5
        best = min(best, d)
    return best


def check_polygon(seq, xfs, res, single_probe=None, perturb=True):
    """seq: list of lattice vertices (ints). Classify all probes under each transform; append violations.
    Probes: the 81 half-integer points and each of them moved by +-0.0004 in x or y (just off a vertex level,
    just off an edge)."""
    poly2 = [(S * x, S * y) for x, y in seq]
    convex = P.is_convex(poly2)
    ys = {y for _, y in poly2}
    if single_probe is not None:
        probes = [tuple(single_probe)]
    else:
        probes = list(BASE)
        if perturb:
            probes += [(x + dx, y + dy) for x, y in BASE for dx, dy in PERT]
    exact = {}
    for px, py in probes:
        exact[(px, py)] = P.classify(poly2, px, py)
    for k in xfs:
        contour = [(_xf(float(x), k), _xf(float(y), k)) for x, y in seq]
        for px, py in probes:
            want = exact[(px, py)]
            fx, fy = _xf(px / S, k), _xf(py / S, k)
            if want != 0:
                # off the boundary: either clearly outside the tolerance band (exact class expected), or clearly
                # inside it by both the detour metric and the distance (on-edge expected); anything between is excluded
                d = P.detour(contour, fx, fy)
                if d < 4 * TOL:
                    if d <= TOL / 2 and _dist_to_boundary(contour, fx, fy) <= TOL / 2:
                        want = 0
                        res.bump("within_tolerance_probes")
                    else:
                        res["excluded"] += 1
                        continue
                elif d < res["stats"].get("min_offedge_detour_e6", 10**12) / 1e6:
                    res["stats"]["min_offedge_detour_e6"] = int(d * 1e6)
            got = _ppc(contour, (fx, fy))
            res["evals"] += 1
            if CONTAINERS and k == "id":
                # the same outline and point in the other containers callers use (lists of lists, numpy arrays): same answer
                import numpy as np

                for name, cc, pp in (("lists", [list(v) for v in contour], [fx, fy]), ("ndarray", np.array(contour, dtype=float), (fx, fy)),
                                     ("ndarray+ndarray", np.array(contour, dtype=float), np.array([fx, fy]))):
                    try:
                        g2 = _ppc(cc, pp)
                    except Exception as e:  # noqa: BLE001
                        g2 = f"{type(e).__name__}"
                    if g2 != got:
                        res["violations"].append(core.viol("answer_depends_on_container", {"polygon": [list(v) for v in seq], "probe_units": [px, py], "xf": k, "containers": True},
                                                           observed=g2, expected=got, msg=f"point_polygon_check gives {g2} for the outline as {name} and {got} for a list of tuples "
                                                           f"({contour}, {(fx, fy)})", container=name))
                        break
            nontriv = (not convex) or any(abs(py - vy) <= EPS for vy in ys) or any(
                abs(P.cross(poly2[i - 1][0], poly2[i - 1][1], poly2[i][0], poly2[i][1], px, py)) <= EPS * 4 * S
                for i in range(len(poly2))
            )
            if nontriv:
                res["nontrivial"] += 1
            lab = {1: "inside", 0: "on_edge", -1: "outside"}[want]
            res.outcome(lab)
            if got != want:
                res["violations"].append(
                    core.viol(
                        "misclassified",
                        {"polygon": [list(v) for v in seq], "probe_units": [px, py], "xf": k},
                        observed=got,
                        expected=want,
                        msg=f"point_polygon_check({contour}, {(fx, fy)}) = {got}, exact classification = {want}",
                        expected_class=lab,
                        got_class={1: "inside", 0: "on_edge", -1: "outside"}.get(got, str(got)),
                    )
                )


FILTER_POLYS = [[(0.0, 0.0), (30.0, 0.0), (30.0, 20.0), (0.0, 20.0)], [(0.0, 0.0), (30.0, 0.0), (30.0, 10.0), (10.0, 10.0), (10.0, 30.0), (0.0, 30.0)],
                [(5.0, 0.0), (35.0, 10.0), (25.0, 30.0), (0.0, 20.0)]]


def run_filter(case, res):
    """the land-constraint filter built on the test (feature_recognition.remove_cutout) with the caller's own edge tolerance: points are
    kept / dropped as their class under THAT tolerance says (on-edge = detour |PA|+|PB|-|AB| below the tolerance, the documented metric)"""
    from ghedesigner.feature_recognition import remove_cutout

    poly = FILTER_POLYS[case["poly"]]
    others = [FILTER_POLYS[k] for k in case.get("more", [])]  # further outlines handed to the filter together with the first (they overlap it)
    tol = case["tol"]
    n = len(poly)
    probes = []
    for i in range(n):
        a, b = poly[i], poly[(i + 1) % n]
        ex, ey = b[0] - a[0], b[1] - a[1]
        ln = (ex * ex + ey * ey) ** 0.5
        nx, ny = -ey / ln, ex / ln
        for f in (0.25, 0.5, 0.8):
            for d in (-3.0, -0.3, -0.04, -0.004, -4e-5, 0.0, 4e-5, 0.004, 0.04, 0.3, 3.0):
                probes.append((a[0] + f * ex + d * nx, a[1] + f * ey + d * ny))
    for remove_inside in (True, False):
        for keep in (True, False):
            res["evals"] += 1
            bounds = [list(v) for v in poly] if not others else [[list(v) for v in pl] for pl in [poly] + others]
            kept = remove_cutout([list(q) for q in probes], bounds, remove_inside=remove_inside, keep_contour=keep, on_edge_tolerance=tol)
            kept = {(float(q[0]), float(q[1])) for q in kept}
            for q in probes:
                classes, near_band = [], False
                for pl in [poly] + others:
                    det = P.detour(pl, q[0], q[1])
                    if abs(det - tol) < max(1e-9, 1e-6 * tol):
                        near_band = True
                    classes.append(0 if det < tol else P.classify(pl, q[0], q[1]))
                if near_band:
                    res["excluded"] += 1
                    continue
                cls = classes[0] if not others else (1 if 1 in classes else 0 if 0 in classes else -1)
                # a point counts as inside when it is inside any outline, as on the contour when it is on some outline's contour (the
                # documented rule of the filter, whichever outline is listed first)
                if remove_inside:
                    want = (1 not in classes) and not (0 in classes and not keep)
                else:
                    want = (1 in classes) or (0 in classes and keep)
                if ((float(q[0]), float(q[1])) in kept) != want:
                    res["violations"].append(core.viol("land_filter_ignores_class", dict(case, probe=[q[0], q[1]], remove_inside=remove_inside, keep_contour=keep),
                                                       msg=f"remove_cutout(tolerance {tol}, remove_inside={remove_inside}, keep_contour={keep}): point ({q[0]:.5f}, {q[1]:.5f}) with detour {det:.3e} "
                                                           f"(class {cls} under that tolerance) was {'kept' if not want else 'dropped'}", tol=tol, cls=cls))
                    break
    res.outcome("land_filter")
    res["nontrivial"] += 1
    res["sample"] = dict(case)


def run_case(case):
    res = core.Result(evals=0)
    if "tol" in case:
        run_filter(case, res)
        return res
    global CONTAINERS
    CONTAINERS = bool(case.get("containers"))
    if "polygon" in case:  # single replay case
        check_polygon([tuple(v) for v in case["polygon"]], [case["xf"]], res, single_probe=case["probe_units"])
        return res
    n, a, b = case["n"], case["a"], case["b"]
    canonical = case["canonical"]
    rest = [i for i in range(16) if i not in (a, b) and (not canonical or i > a)]
    npoly = 0
    for tail in permutations(rest, n - 2):
        seq = [PTS[a], PTS[b]] + [PTS[i] for i in tail]
        if not P.is_simple(seq):
            continue
        npoly += 1
        check_polygon(seq, case["xfs"], res, perturb=case.get("perturb", True))
        if res["sample"] is None and npoly == 7:
            res["sample"] = {"polygon": seq, "probes": "81 half-integer points" + (" and each moved by +-0.0004 in x / y" if case.get("perturb", True) else ""), "xfs": case["xfs"]}
    res.bump("simple_polygons", npoly)
    res.bump(f"simple_polygons_n{n}", npoly)
    # min is not additive: carry it separately
    m = res["stats"].pop("min_offedge_detour_e6", None)
    if m is not None:
        res["min_detour_e6"] = m
    return res


def chunks(n, canonical, xfs, perturb=True):
    out = []
    for a in range(16):
        for b in range(16):
            if b == a or (canonical and b < a):
                continue
            out.append({"n": n, "a": a, "b": b, "canonical": canonical, "xfs": xfs, "perturb": perturb, "containers": n == 3})
    return out


def main(run: core.Run, only=None):
    xfs = list(XFS)
    cases = []
    if run.tier == "quick":
        plan = [(3, False, True), (4, False, True), (5, True, False)]
    else:
        plan = [(3, False, True), (4, False, True), (5, False, True), (6, False, False)]
    for n, canonical, perturb in plan:
        cases += chunks(n, canonical, xfs, perturb)
    results = run.drive(cases, family="lattice-polygons", chunksize=1)
    run.drive([{"poly": k, "tol": t} for k in range(len(FILTER_POLYS)) for t in (1.0e-4, 0.001, 0.01, 0.5)] +
              [{"poly": a, "more": [b], "tol": t} for a, b in ((0, 2), (2, 0), (1, 2), (2, 1), (0, 1)) for t in (0.001, 0.01)], family="land-constraint-filter")
    mins = [r.get("min_detour_e6") for r in results if r.get("min_detour_e6") is not None]
    min_detour = min(mins) / 1e6 if mins else None
    rule = (
        "every simple vertex sequence on the 4x4 lattice (tier bound on n and start vertex) x 81 half-integer probes "
        "x 3 affine images; one evaluation = one point_polygon_check call compared with the exact integer oracle; "
        "non-trivial = polygon non-convex, or probe level with a vertex, or probe collinear with an edge line"
    )
    return run.finish(
        rule=rule,
        bounds={"lattice": "4x4", "vertices": [n for n, _, _ in plan], "canonical_start_only": {str(n): c for n, c, _ in plan},
                "perturbed_probes": {str(n): p for n, _, p in plan}, "probes": "81 (+324 perturbed by 0.0004)", "affine_images": xfs, "on_edge_tolerance": TOL},
        assumptions=[
            "on-edge band: an off-boundary probe is expected on-edge when both its detour |PA|+|PB|-|AB| and its distance to the "
            "boundary are <= tolerance/2, expected in its exact class when the detour is >= 4*tolerance, and excluded (counted) between",
            "exact oracle works on doubled integer coordinates; the affine images are applied to vertices and probes alike",
        ],
        extra={"min_offedge_detour": min_detour},
        require_outcomes=("inside", "on_edge", "outside", "land_filter"),
    )
