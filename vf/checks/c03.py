"""C03 - rectangular-family candidate fields stay on the land, respect spacing, are ordered.

Alphabet : (length, width) over 13x13 side values (L>W, L=W, L<W), b_min x b_max_x x b_max_y over 5 values each
           (b_min <= b_max), plus a float-rounding family length = k*b.  Candidate lists are produced by the real
           Design* constructors' code path (domains.rectangular / bi_rectangle_nested / bi_rectangle_zoned_nested /
           square_and_near_square with DesignNearSquare's floor(length/b)+1).
Oracle   : independent geometry: every borehole in [0,length]x[0,width] (x-extent = length as the API means it), no
           coincident boreholes, nearest-neighbour distance >= b_min, near-square fields are exactly the i x i / i x (i+1)
           lattice at spacing b with (i-1)*b <= length, lists ordered by non-decreasing count.
"""
from __future__ import annotations

from math import floor

import numpy as np
from scipy.spatial import cKDTree

from vf import core

SIDES = [10, 12.5, 17.3, 20, 25, 30, 33.3, 36.5, 40, 50, 64.1, 85, 100]
BMIN = [2, 2.5, 3, 3.3, 5]
BMAX = [5, 6.1, 7.5, 10, 12.5]

_dom = None


def init_worker():
    global _dom
    from ghedesigner import domains

    for n in ("rectangular", "bi_rectangle_nested", "bi_rectangle_zoned_nested", "square_and_near_square"):
        if not hasattr(domains, n):
            raise core.HarnessError(f"seam missing: ghedesigner.domains.{n}")
    _dom = domains


def check_field(res, case, gen, pos, field, length, width, b_min, descr=None):
    """geometry oracle for one candidate field; returns number of boreholes"""
    a = np.asarray(field, dtype=float)
    n = len(a)
    res["evals"] += 1
    eps_x = 1e-9 * max(1.0, length)
    eps_y = 1e-9 * max(1.0, width)
    if n == 0:
        res["violations"].append(core.viol("empty_field", case, msg=f"{gen}{pos}: empty candidate field", gen=gen))
        return 0
    xmin, ymin = a.min(axis=0)
    xmax, ymax = a.max(axis=0)
    if xmin < -eps_x or ymin < -eps_y or xmax > length + eps_x or ymax > width + eps_y:
        res["violations"].append(core.viol(
            "off_land", dict(case, where=[gen, pos]), observed=[float(xmin), float(ymin), float(xmax), float(ymax)],
            expected=[0, 0, length, width],
            msg=f"{gen} list position {pos} ({descr}): boreholes span x [{xmin:.4f},{xmax:.4f}] y [{ymin:.4f},{ymax:.4f}] "
                f"outside the land [0,{length}]x[0,{width}]", gen=gen, transposed=length < width))
    if n > 1:
        xs, ys = np.unique(a[:, 0]), np.unique(a[:, 1])
        if len(xs) * len(ys) == n:  # a full lattice: the nearest neighbour is along a row or a column
            dmin = min(float(np.diff(xs).min()) if len(xs) > 1 else float("inf"),
                       float(np.diff(ys).min()) if len(ys) > 1 else float("inf"))
        else:
            d, _ = cKDTree(a).query(a, k=2)
            dmin = float(d[:, 1].min())
        if dmin <= 1e-9:
            res["violations"].append(core.viol("coincident_boreholes", dict(case, where=[gen, pos]), observed=dmin,
                                               msg=f"{gen} list position {pos} ({descr}): two boreholes coincide", gen=gen))
        elif dmin < b_min * (1 - 1e-9):
            res["violations"].append(core.viol(
                "spacing_below_b_min", dict(case, where=[gen, pos]), observed=dmin, expected=b_min,
                msg=f"{gen} list position {pos} ({descr}): nearest-neighbour distance {dmin:.6f} < b_min {b_min}", gen=gen,
                transposed=length < width))
    return n


def check_order(res, case, gen, counts, k=None):
    for i in range(len(counts) - 1):
        if counts[i + 1] < counts[i]:
            res["violations"].append(core.viol(
                "list_not_ordered", dict(case, where=[gen, k, i]), observed=counts[i:i + 2],
                msg=f"{gen} list {k}: borehole counts {counts[i]} then {counts[i + 1]} at positions {i},{i + 1}", gen=gen))
            break


def run_point(res, length, width, b_min, bx, by, gens):
    case = {"length": length, "width": width, "b_min": b_min, "b_max_x": bx, "b_max_y": by}
    if "rectangle" in gens:
        try:
            dom, desc = _dom.rectangular(length, width, b_min, bx)
        except (IndexError, ZeroDivisionError, ValueError):
            res.bump("no_domain_rectangle")
            dom, desc = [], []
        if not dom:
            res.bump("empty_domain_rectangle")
        counts = [check_field(res, case, "rectangle", i, f, length, width, b_min, desc[i]) for i, f in enumerate(dom)]
        check_order(res, case, "rectangle", counts)
    if "birectangle" in gens:
        try:
            nested, descs = _dom.bi_rectangle_nested(length, width, b_min, bx, by)
        except (IndexError, ZeroDivisionError, ValueError):
            res.bump("no_domain_birectangle")
            nested, descs = [], []
        if not nested or any(len(d) == 0 for d in nested):
            res.bump("empty_domain_birectangle")
        for k, dom in enumerate(nested):
            counts = [check_field(res, case, "birectangle", (k, i), f, length, width, b_min, descs[k][i]) for i, f in enumerate(dom)]
            check_order(res, case, "birectangle", counts, k)
    if "bizoned" in gens:
        try:
            nested, descs = _dom.bi_rectangle_zoned_nested(length, width, b_min, bx, by)
        except (IndexError, ZeroDivisionError, ValueError):
            # empty spacing window (no admissible integer row count) or a side that admits only two rows: no candidate
            # list exists, which is outside C03's quantifier ("every candidate field ... can select"); counted
            res.bump("no_domain_bizoned")
            nested, descs = [], []
        for k, dom in enumerate(nested):
            for i, f in enumerate(dom):
                check_field(res, case, "bizoned", (k, i), f, length, width, b_min, descs[k][i])
    res.outcome("L>W" if length > width else "L=W" if length == width else "L<W")


def run_nearsquare(res, length, b):
    case = {"length": length, "b": b, "gen": "nearsquare"}
    # the candidate list as the real design class builds it (DesignNearSquare.__init__ through GHEManager.set_design)
    from vf import scenarios

    m = scenarios.build_manager("nearsquare", geo={"b": b, "length": length})
    dom, desc = m._design.coordinates_domain, m._design.fieldDescriptors
    n = len(dom) // 2
    counts = []
    idx = 0
    for i in range(1, n + 1):
        for j in range(2):
            f = dom[idx]
            res["evals"] += 1
            exp = [(ix * b, iy * b) for ix in range(i) for iy in range(i + j)]
            if [tuple(map(float, p)) for p in f] != [tuple(map(float, p)) for p in exp]:
                res["violations"].append(core.viol("nearsquare_not_a_lattice", dict(case, where=idx), msg=f"near-square position {idx} ({desc[idx]}) is not the {i}x{i + j} lattice at spacing {b}", gen="nearsquare"))
            if (i - 1) * b > length * (1 + 1e-12):
                res["violations"].append(core.viol("nearsquare_exceeds_length", dict(case, where=idx), observed=(i - 1) * b, expected=length, msg=f"near-square {desc[idx]}: (n-1)*b = {(i - 1) * b} > length {length}", gen="nearsquare"))
            counts.append(len(f))
            idx += 1
    if idx != len(dom):
        res["violations"].append(core.viol("nearsquare_not_a_lattice", dict(case, where=idx), msg=f"near-square list has {len(dom)} entries: not pairs of n x n / n x (n+1) grids", gen="nearsquare"))
    check_order(res, case, "nearsquare", counts)
    res.outcome("nearsquare")


def run_case(case):
    res = core.Result(evals=0)
    if case.get("gen") == "nearsquare" and "length" in case and "b" in case and "chunk" not in case:
        run_nearsquare(res, case["length"], case["b"])
        return res
    if "b_min" in case:  # single lattice point (replay form)
        gens = ("rectangle", "birectangle", "bizoned")
        run_point(res, case["length"], case["width"], case["b_min"], case["b_max_x"], case["b_max_y"], gens)
        return res
    if case["chunk"] == "lot":
        length, width = case["length"], case["width"]
        for b_min in case["bmin"]:
            for bx in case["bmax"]:
                for by in case["bmax"]:
                    if b_min > bx or b_min > by:
                        continue
                    n0 = len(res["violations"])
                    run_point(res, length, width, b_min, bx, by, case["gens"])
                    if length != width or b_min != case["bmin"][0]:
                        res["nontrivial"] += 1  # anything but the square lot at the first spacing
        res["sample"] = {"length": length, "width": width, "b_min": case["bmin"][0], "b_max_x": case["bmax"][0], "b_max_y": case["bmax"][-1]}
    elif case["chunk"] == "nearsquare":
        for length in case["lengths"]:
            for b in case["bs"]:
                run_nearsquare(res, length, b)  # including land sides shorter than one spacing (only the single borehole and 1 x 2 fit)
                res["nontrivial"] += 1
        res["sample"] = {"gen": "nearsquare", "length": case["lengths"][0], "b": case["bs"][0]}
    elif case["chunk"] == "rounding":
        b = case["b"]
        for k in case["ks"]:
            length = k * b
            run_nearsquare(res, length, b)
            for w in (length, 0.6 * length, (k // 2) * b):
                if w >= b:
                    for gens_swap in (False, True):
                        L, W = (w, length) if gens_swap else (length, w)
                        run_point(res, L, W, b, 2 * b, 3 * b, case["gens"])
                        res["nontrivial"] += 1
        res["sample"] = {"rounding_family": True, "b": b, "k": case["ks"]}
    return res


def main(run: core.Run, only=None):
    quick = run.tier == "quick"
    bmin = BMIN[::2] if quick else BMIN
    bmax = BMAX[::2] if quick else BMAX
    sides = SIDES[::2] if quick else SIDES
    cases = []
    for L in sides:
        for W in sides:
            cases.append({"chunk": "lot", "length": float(L), "width": float(W), "bmin": bmin, "bmax": bmax,
                          "gens": ["rectangle", "birectangle", "bizoned"]})
    run.drive(cases, family="lot-lattice", chunksize=1)
    run.drive([{"chunk": "nearsquare", "lengths": [float(x)], "bs": [float(y) for y in BMIN + BMAX + [0.7, 1.1, 20.0, 6.096]]} for x in SIDES + [3.0, 5.0, 155.0]],
              family="nearsquare")
    run.drive([{"chunk": "rounding", "b": b, "ks": [k], "gens": ["rectangle", "birectangle", "bizoned"]}
               for b in ((0.3, 3.3) if quick else (0.1, 0.3, 0.7, 1.1, 3.3)) for k in (range(2, 41, 2) if quick else range(2, 41))], family="float-rounding")
    return run.finish(
        rule="complete lattice of (length, width, b_min, b_max_x, b_max_y) and (length, b); one evaluation = one candidate field "
             "checked by the geometry oracle; non-trivial = lattice point other than the square lot at the smallest spacing",
        bounds={"sides": sides, "b_min": bmin, "b_max": bmax, "rounding_family": "length = k*b, k=2..40, b in {0.1,0.3,0.7,1.1,3.3}"},
        assumptions=["land rectangle is [0,length]x[0,width] with x-extent = `length` as GHEManager's setters pass it",
                     "spacing windows that admit no integer row count give an empty domain: counted (stats.empty_domain_*), "
                     "outside C03's quantifier; ordering is not asserted for the bi-zoned list (the property does not claim it)"],
        require_outcomes=("L>W", "L=W", "L<W", "nearsquare"),
    )
