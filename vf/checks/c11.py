"""C11 - the combined g-function is well formed and interpolation-consistent.

join      : BaseGHE.combine_sts_lts through grab_g_function on real GHE objects, H x soil lattice chosen so that ln(49 h / t_s) sweeps
            across -8.5 (both branches), with and without a stored radius different from the borehole radius
interp    : every non-empty subset (size <= 5) of stored heights {24,48,96,192,384} x every stored height as query
radius    : borehole_radius_correction: identity, additivity over ratio chains
fls       : gfunction.calculate_g_function(boundary="UHTR") vs the analytical finite-line-source superposition (vf/oracles/fls.py)
            for rectangles n x m (n <= m <= 6 thorough / 4 quick), L / U shapes, irregular lists; MIFT single borehole within 20 %
"""
from __future__ import annotations

import itertools
import warnings
from math import exp, log

import numpy as np

from vf import core, ghe_factory, scenarios
from vf.oracles import fls


def init_worker():
    import ghedesigner.gfunction as gf
    import ghedesigner.ground_heat_exchangers as ghx

    warnings.filterwarnings("ignore")
    for mod, n in ((gf, "GFunction"), (gf, "calculate_g_function"), (ghx, "BaseGHE")):
        if not hasattr(mod, n):
            raise core.HarnessError(f"seam missing: {mod.__name__}.{n}")


def run_join(case, res):
    from ghedesigner.utilities import eskilson_log_times

    H, ks, rc = case["H"], case["k_s"], case["rhocp"]
    coords = [(0.0, 0.0), (0.0, 6.0), (6.0, 0.0), (6.0, 6.0)]
    rb = 0.075
    rb_store = case.get("rb_stored", rb)
    gfun = ghe_factory.table_gfunction(coords, 6.0, [H], rb_store)
    ghe = ghe_factory.make_ghe(coords, H=H, soil=(ks, rc, 18.3), gfunc=gfun, rb=rb)
    res["evals"] += 1
    g, g_bhw = ghe.grab_g_function(ghe.B_spacing / float(ghe.bhe.b.H))
    x = [float(v) for v in g.x]
    y = [float(v) for v in g.y]
    lt = eskilson_log_times()
    sts_x = [float(v) for v in ghe.radial_numerical.lntts]
    sts_y = [float(v) for v in ghe.radial_numerical.g]
    stored = gfun.g_lts[H]

    def v(kind, msg, **a):
        res["violations"].append(core.viol(kind, case, msg=f"H={H} k_s={ks} rho*c={rc}: {msg}", **a))

    if any(x[i + 1] <= x[i] for i in range(len(x) - 1)):
        v("axis_not_increasing", "combined ln(t/ts) axis is not strictly increasing")
    # long-time part
    tail_x, tail_y = x[-27:], y[-27:]
    corr = log(rb / rb_store)
    if tail_x != lt:
        v("long_time_points_missing", f"the last 27 points of the axis are not Eskilson's points: {tail_x[:3]}...")
    elif any(abs(tail_y[i] - (stored[i] - corr)) > 1e-12 * max(1.0, abs(stored[i])) for i in range(27)):
        v("long_time_values_wrong", "long-time values differ from stored g - ln(r_b*/r_b)", corrected=(rb_store != rb))
    # short-time part: exactly the short-time points below the first long-time point
    head_x, head_y = x[:-27], y[:-27]
    overlap = max(sts_x) >= min(lt)
    want = [(a, b) for a, b in zip(sts_x, sts_y) if a <= min(lt)] if overlap else list(zip(sts_x, sts_y))
    # the tool stops at the first short-time point strictly above -8.5: points <= -8.5 are kept (a point equal to -8.5 would
    # duplicate the axis: excluded by construction, checked here)
    if any(a == min(lt) for a in sts_x):
        res["excluded"] += 1
    elif list(zip(head_x, head_y)) != want:
        v("short_time_part_wrong", f"{len(head_x)} short-time points kept, expected {len(want)} (short-time axis ends at {max(sts_x):.4f})", overlap=overlap)
    if head_x and head_x[-1] >= lt[0]:
        v("short_time_overlaps_long_time", f"last short-time point {head_x[-1]} is not below the first long-time point {lt[0]}")
    res.outcome("join_truncate" if overlap else "join_concatenate")
    res["nontrivial"] += 1
    res["sample"] = dict(case)


def run_recompute(case, res):
    """one GHE: its multi-height family is used (interpolated), the height window changes, compute_g_functions() runs again (real
    pygfunction): the curve used afterwards must be the NEW family's"""
    from ghedesigner.utilities import eskilson_log_times

    coords = [(0.0, 0.0), (0.0, 6.0), (6.0, 0.0), (6.0, 6.0)]
    h0 = case["heights0"]
    ghe = ghe_factory.make_ghe(coords, H=h0[1], hvals=h0, months=12)
    ghe.grab_g_function(ghe.B_spacing / float(ghe.bhe.b.H))
    ghe.bhe.b.H = 0.5 * (h0[0] + h0[1])
    ghe.grab_g_function(ghe.B_spacing / float(ghe.bhe.b.H))  # a genuine interpolation builds the table
    lo, hi = case["window1"]
    ghe.sim_params.min_height, ghe.sim_params.max_height = lo, hi
    res["evals"] += 1
    try:
        ghe.compute_g_functions()
    except Exception as e:  # noqa: BLE001
        res["violations"].append(core.viol("compute_g_functions_raised", case, msg=f"{type(e).__name__}: {e}"))
        return
    mid = 0.5 * (lo + hi)
    lt = eskilson_log_times()
    for q in (lo, mid, hi):
        ghe.bhe.b.H = q
        try:
            g, _ = ghe.grab_g_function(ghe.B_spacing / float(q))
        except Exception as e:  # noqa: BLE001
            res["violations"].append(core.viol("recomputed_family_not_used", dict(case, query=q), msg=f"after compute_g_functions() for [{lo},{hi}] the curve at the stored height {q} raises {type(e).__name__}: {e}", how="raises"))
            continue
        stored = ghe.gFunction.g_lts.get(q)
        if stored is None:
            res["violations"].append(core.viol("recomputed_family_not_used", dict(case, query=q), msg=f"after compute_g_functions() the family holds heights {list(ghe.gFunction.g_lts)} not {[lo, mid, hi]}", how="heights"))
            break
        tail = [float(v) for v in g.y[-27:]]
        if [float(v) for v in g.x[-27:]] != lt or any(abs(a - b) > 1e-9 * max(1.0, abs(b)) for a, b in zip(tail, stored)):
            res["violations"].append(core.viol("recomputed_family_not_used", dict(case, query=q), msg=f"after compute_g_functions() for [{lo},{hi}] the curve used at the stored height {q} m differs from the stored curve by up to "
                                                                                                       f"{max(abs(a - b) for a, b in zip(tail, stored)):.4f}", how="values"))
    res.outcome("recompute")
    res["nontrivial"] += 1
    res["sample"] = dict(case)


def run_interp(case, res):
    from ghedesigner.gfunction import GFunction
    from ghedesigner.utilities import eskilson_log_times

    lt = eskilson_log_times()
    hs = case["heights"]
    g_lts = {h: [3.0 + 0.8 * (xx + 8.5) + 0.01 * h ** 0.5 * (xx + 8.5) ** 1.5 for xx in lt] for h in hs}
    rbs = {h: 0.05 + 0.0001 * h for h in hs}
    order_g = case.get("order_g") or list(range(len(hs)))
    order_r = case.get("order_r") or list(range(len(hs)))
    for q in hs:
        # the two dictionaries may list the heights in different orders (e.g. after a JSON round trip with sorted keys)
        gf = GFunction(b=5.0, d=2.0, r_b_values={hs[i]: rbs[hs[i]] for i in order_r}, g_lts={hs[i]: list(g_lts[hs[i]]) for i in order_g}, log_time=lt,
                       bore_locations=[(0, 0), (0, 5)])
        res["evals"] += 1
        try:
            g, rb, d, heq = gf.g_function_interpolation(5.0 / q)
        except Exception as e:  # noqa: BLE001
            res["violations"].append(core.viol("interpolation_raised", dict(case, query=q), msg=f"stored heights {hs}, query {q}: {type(e).__name__}: {e}", n_curves=len(hs)))
            continue
        if any(abs(float(a) - b) > 1e-12 * max(1.0, abs(b)) for a, b in zip(g, g_lts[q])):
            res["violations"].append(core.viol("stored_curve_not_reproduced", dict(case, query=q), msg=f"stored heights {hs}: interpolating at the stored height {q} does not return the stored curve", n_curves=len(hs)))
        if abs(float(rb) - rbs[q]) > 1e-12:
            res["violations"].append(core.viol("stored_radius_not_reproduced", dict(case, query=q), msg=f"stored heights {hs}: radius at stored height {q}: {float(rb)} vs {rbs[q]}", n_curves=len(hs)))
    res.outcome(f"interp_{min(len(hs), 5)}_curves")
    if len(hs) > 1:
        res["nontrivial"] += 1
    res["sample"] = dict(case)


def run_radius(case, res):
    from ghedesigner.gfunction import GFunction

    g0 = [1.0, 2.5, 7.25, 30.0, -0.5]
    ratios = case["ratios"]
    for a in ratios:
        res["evals"] += 1
        same = GFunction.borehole_radius_correction(g0, 0.075, 0.075 * 1.0)
        if a == 1.0 and [float(x) for x in same] != g0:
            res["violations"].append(core.viol("radius_correction_not_identity", case, msg="correction with equal radii changes the curve"))
        for b in ratios:
            r0, r1, r2 = 0.06, 0.06 * a, 0.06 * a * b
            two = GFunction.borehole_radius_correction(GFunction.borehole_radius_correction(g0, r0, r1), r1, r2)
            one = GFunction.borehole_radius_correction(g0, r0, r2)
            if any(abs(x - y) > 1e-12 * max(1.0, abs(y)) for x, y in zip(two, one)):
                res["violations"].append(core.viol("radius_correction_not_additive", dict(case, pair=[a, b]), msg=f"correcting {r0}->{r1}->{r2} differs from {r0}->{r2}"))
            want = [x - log(r2 / r0) for x in g0]
            if any(abs(x - y) > 1e-12 * max(1.0, abs(y)) for x, y in zip(one, want)):
                res["violations"].append(core.viol("radius_correction_wrong", dict(case, pair=[a, b]), msg=f"correction {r0}->{r2} is not g - ln(r*/r)"))
    res.outcome("radius")
    res["nontrivial"] += 1
    res["sample"] = dict(case)


def field_coords(spec):
    from ghedesigner import coordinates as C

    k = spec[0]
    if k == "rect":
        return C.rectangle(spec[1], spec[2], spec[3], spec[3])
    if k == "L":
        return C.l_shape(spec[1], spec[2], spec[3], spec[3])
    if k == "U":
        return C.lop_u(spec[1], spec[2], spec[3], spec[3], spec[2])
    if k == "list":
        return [tuple(p) for p in spec[1]]
    raise core.HarnessError(str(spec))


def run_fls(case, res):
    from ghedesigner.borehole import GHEBorehole
    from ghedesigner.gfunction import calculate_g_function
    from ghedesigner.utilities import eskilson_log_times

    coords = field_coords(case["field"])
    if case.get("shift"):
        # the same field in map coordinates (easting / northing of a national grid): a g-function does not depend on where the field sits
        coords = [(x + case["shift"][0], y + case["shift"][1]) for x, y in coords]
    H, D, rb = case["H"], case["D"], case["rb"]
    m = scenarios.build_manager("nearsquare", do_set_design=False)
    alpha = m._soil.k / m._soil.rhoCp
    ts = H ** 2 / (9 * alpha)
    lt = eskilson_log_times()
    sel = lt[:: case.get("stride", 3)] + [lt[-1]]
    times = [exp(x) * ts for x in sel]
    bh = GHEBorehole(H, D, rb, 0.0, 0.0)
    res["evals"] += 1
    gfo = calculate_g_function(0.3, m.pipe_type, np.array(times), coords, bh, m._fluid, m._pipe, m._grout, m._soil, boundary="UHTR")
    got = [float(v) for v in gfo.gFunc]
    want = fls.g_function_uhtr(coords, times, alpha, H, D, rb)
    n = len(coords)
    tol = 1e-6 if n == 1 else 1e-4
    worst = max(abs(a - b) / max(1.0, abs(b)) for a, b in zip(got, want))
    if worst > tol:
        i = max(range(len(got)), key=lambda k: abs(got[k] - want[k]) / max(1.0, abs(want[k])))
        res["violations"].append(core.viol("differs_from_finite_line_source", case, observed=got[i], expected=want[i],
                                           msg=f"{n} boreholes, H={H} D={D} rb={rb}: UHTR g at ln(t/ts)={sel[i]} is {got[i]!r}, analytical FLS superposition {want[i]!r} (rel {worst:.2e})", n=n))
    if n == 1 and case.get("mift", True):
        res["evals"] += 1
        gm = calculate_g_function(0.3, m.pipe_type, np.array(times), coords, bh, m._fluid, m._pipe, m._grout, m._soil)
        gm = [float(v) for v in gm.gFunc]
        dev = max(abs(a - b) / max(1e-9, abs(b)) for a, b in zip(gm, want))
        if dev > 0.20:
            res["violations"].append(core.viol("mift_far_from_finite_line_source", case, observed=dev, msg=f"default MIFT curve of one borehole deviates {100 * dev:.1f} % from the FLS solution"))
    res.outcome("fls_single" if n == 1 else "fls_field")
    res["nontrivial"] += 1
    res["sample"] = dict(case)


def run_fls_family(case, res):
    """the analytical anchor through the routine that builds families of long-time curves (what searches and sizing call), for a sequence
    of burial depths / radii / heights asked one after the other in one process"""
    from ghedesigner.gfunction import calc_g_func_for_multiple_lengths
    from ghedesigner.utilities import eskilson_log_times

    coords = field_coords(case["field"])
    m = scenarios.build_manager("nearsquare", do_set_design=False)
    alpha = m._soil.k / m._soil.rhoCp
    lt = eskilson_log_times()
    sel = lt[::3] + [lt[-1]]
    n = len(coords)
    for k, req in enumerate(case["sequence"]):
        H, D, rb = req[:3]
        if len(req) > 3:
            m._soil.k = req[3]  # a sweep over ground conductivities that re-uses one Soil object
            alpha = m._soil.k / m._soil.rhoCp
        res["evals"] += 1
        gf = calc_g_func_for_multiple_lengths(5.0 if n > 1 else rb, [H], rb, D, 0.3, m.pipe_type, sel, coords, m._fluid, m._pipe, m._grout, m._soil, boundary="UHTR")
        got = [float(v) for v in gf.g_lts[H]]
        ts = H ** 2 / (9 * alpha)
        want = fls.g_function_uhtr(coords, [exp(x) * ts for x in sel], alpha, H, D, rb)
        worst = max(abs(a - b) / max(1.0, abs(b)) for a, b in zip(got, want))
        if worst > (1e-6 if n == 1 else 1e-4) or float(gf.d) != float(D) or float(gf.r_b_values[H]) != float(rb):
            res["violations"].append(core.viol("differs_from_finite_line_source", dict(case, sequence=case["sequence"][:k + 1]), observed=worst,
                                               msg=f"{n} boreholes, request #{k + 1} (H={H} D={D} rb={rb}) through calc_g_func_for_multiple_lengths: UHTR curve differs from the analytical FLS superposition "
                                                   f"by {worst:.2e} (relative), depth / radius recorded {gf.d} / {gf.r_b_values[H]}", n=n, via="family-routine", after_other_requests=k > 0))
            break
    res.outcome("fls_family_routine")
    res["nontrivial"] += 1
    res["sample"] = dict(case)


def run_case(case):
    res = core.Result(evals=0)
    if case["family"] == "fls_family":
        run_fls_family(case, res)
        return res
    {"join": run_join, "interp": run_interp, "radius": run_radius, "fls": run_fls, "recompute": run_recompute}[case["family"]](case, res)
    return res


def main(run: core.Run, only=None):
    quick = run.tier == "quick"
    joins = []
    for H in (20.0, 30.0, 45.0, 60.0, 100.0, 200.0, 400.0):
        for ks, rc in ((1.0, 3.0e6), (2.0, 2343493.0), (4.0, 1.8e6)) if quick else [(k, r) for k in (1.0, 2.0, 4.0) for r in (1.8e6, 2343493.0, 3.0e6)]:
            joins.append({"family": "join", "H": H, "k_s": ks, "rhocp": rc})
            if H in (30.0, 100.0):
                joins.append({"family": "join", "H": H, "k_s": ks, "rhocp": rc, "rb_stored": 0.05})
    run.drive(joins, family="join")
    hs = [24.0, 48.0, 96.0, 192.0, 384.0]
    interps = [{"family": "interp", "heights": list(c)} for r in range(1, 6) for c in itertools.combinations(hs, r)]
    for r in (2, 3):
        for c in itertools.combinations(hs, r):
            for og in itertools.permutations(range(r)):
                for orr in itertools.permutations(range(r)):
                    if list(og) != list(range(r)) or list(orr) != list(range(r)):
                        interps.append({"family": "interp", "heights": list(c), "order_g": list(og), "order_r": list(orr)})
    for r in (4, 5):
        for c in itertools.combinations(hs, r):
            interps.append({"family": "interp", "heights": list(c), "order_g": list(range(r))[::-1], "order_r": list(range(r))})
            interps.append({"family": "interp", "heights": list(c), "order_g": sorted(range(r), key=lambda i: str(c[i])), "order_r": list(range(r))})
    run.drive(interps, family="interpolation")
    run.drive([{"family": "radius", "ratios": [0.5, 0.8, 1.0, 1.25, 2.0, 3.0]}], family="radius-correction")
    rec = [{"family": "recompute", "heights0": [60.0, 97.5, 135.0], "window1": [80.0, 120.0]}, {"family": "recompute", "heights0": [60.0, 97.5, 135.0], "window1": [60.0, 135.0]}]
    if not quick:
        rec += [{"family": "recompute", "heights0": [40.0, 70.0, 100.0], "window1": [90.0, 150.0]}, {"family": "recompute", "heights0": [100.0, 150.0, 200.0], "window1": [50.0, 90.0]}]
    run.drive(rec, family="recompute")
    nmax = 4 if quick else 6
    fields = [["rect", n, mm, 5.0] for n in range(1, nmax + 1) for mm in range(n, nmax + 1)]
    fields += [["L", 3, 3, 6.0], ["L", 5, 4, 5.0], ["U", 4, 3, 5.0]] + ([["L", 4, 6, 7.0], ["L", 6, 2, 4.0], ["U", 3, 5, 6.0], ["U", 5, 4, 5.0], ["U", 6, 6, 4.5]] if not quick else [])
    fields += [["list", [[0, 0], [4.3, 1.1], [9.9, 0.4], [2.2, 7.7]]], ["list", [[1.5, 2.25], [9.0, 3.0], [4.0, 11.5], [13.0, 12.0], [7.7, 7.1], [2.0, 17.0]]]]
    if not quick:
        fields += [["list", [[0, 0], [0, 3.1], [3.3, 0], [12.0, 12.0], [12.0, 15.5], [20.0, 1.0], [6.0, 6.0]]], ["rect", 10, 12, 5.0], ["rect", 10, 15, 5.0]]
    fl = []
    for f in fields:
        big = f[0] == "rect" and f[1] * f[2] > 36
        for H, D, rb in ([(60.0, 1.0, 0.055), (135.0, 4.0, 0.075)] if (quick or big) else [(h, d, r) for h in (60.0, 135.0) for d in (1.0, 4.0) for r in (0.055, 0.075)]):
            fl.append({"family": "fls", "field": f, "H": H, "D": D, "rb": rb, "stride": 6 if big else 3})
    for f in ([["rect", 3, 4, 5.0], ["L", 3, 3, 6.0], ["list", [[0, 0], [4.3, 1.1], [9.9, 0.4], [2.2, 7.7]]]] + ([] if quick else [["rect", 2, 6, 5.0], ["U", 4, 3, 5.0]])):
        for shift in ([431250.0, 4581362.0], [1200.0, 35000.0]):
            fl.append({"family": "fls", "field": f, "H": 100.0, "D": 2.0, "rb": 0.075, "stride": 3, "shift": shift})
    run.drive(fl, family="fls-anchor")
    ff = [{"family": "fls_family", "field": f, "sequence": sq} for f in ([["rect", 2, 2, 5.0], ["rect", 1, 1, 5.0]] + ([] if quick else [["L", 3, 3, 6.0], ["rect", 2, 5, 5.0]]))
          for sq in ([[100.0, 2.0, 0.075], [100.0, 8.0, 0.075], [100.0, 2.0, 0.075]], [[100.0, 2.0, 0.075], [100.0, 2.0, 0.075, 3.1], [100.0, 2.0, 0.075, 1.2]], [[60.0, 1.0, 0.055], [60.0, 1.0, 0.075], [135.0, 1.0, 0.075], [60.0, 4.0, 0.055]])]
    run.drive(ff, family="fls-through-the-family-routine")
    return run.finish(
        rule="join: H x soil lattice through the real grab_g_function; interpolation: all 31 subsets of 5 stored heights x each stored "
             "height; radius correction: all ratio pairs; FLS anchor: fields x (H, D, r_b) through the real calculate_g_function(UHTR) vs "
             "the analytical superposition; one evaluation = one curve; non-trivial = every case except single-curve interpolation",
        bounds={"join_heights": [20, 30, 45, 60, 100, 200, 400], "stored_heights": hs, "rectangles_up_to": f"{nmax}x{nmax}", "fields": len(fields)},
        assumptions=["FLS tolerance relative to max(1,|g|): 1e-6 for one borehole, 1e-4 for fields (pygfunction's 'equivalent' solver groups boreholes)",
                     "scipy.integrate.quad is trusted for the reference integral"],
        require_outcomes=("join_truncate", "join_concatenate", "fls_single", "fls_field", "radius", "recompute"),
    )
