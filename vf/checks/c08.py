"""C08 - the hybrid time axis covers the horizon exactly and is ordered.

Alphabet : 22 representative profiles (one per structural class of the C06 alphabet, plus smooth/constant ones)
           x every horizon 1..360 months (quick: 14 horizons around the multiples of 12).
Oracle   : own non-leap calendar; windows recomputed from the reported durations and the input profile's own peak days.
"""
from __future__ import annotations

from vf import core, hybrid, loadgen as LG
from vf.checks import c06

QUICK_H = [1, 2, 11, 12, 13, 23, 24, 25, 36, 37, 120, 240, 359, 360]


def init_worker():
    c06.init_worker()


def representatives():
    P = {"pc": 6.0, "ph": 5.0}
    pats = [
        {"dir": "none", **P},
        {"dir": "c", "cday": "first", "shape": "1h", "base": 0, **P},
        {"dir": "c", "cday": "last", "shape": "30h", "base": 0.2, **P},
        {"dir": "c", "cday": "mid", "shape": "6h", "base": 0.2, **P},
        {"dir": "h", "hday": "first", "shape": "1h", "base": 0, **P},
        {"dir": "h", "hday": "first", "shape": "6h", "base": 0.2, **P},
        {"dir": "h", "hday": "last", "shape": "30h", "base": 0.2, **P},
        {"dir": "both", "cday": "mid", "hday": "mid", "shape": "6h", "base": 0.2, **P},
        {"dir": "both", "cday": "second", "hday": "penult", "shape": "6h", "base": 0.2, **P},
        {"dir": "both", "cday": "penult", "hday": "second", "shape": "1h", "base": 0, **P},
        {"dir": "both", "cday": "first", "hday": "last", "shape": "30h", "base": 0.2, **P},
        {"dir": "both", "cday": "last", "hday": "first", "shape": "6h", "base": 0, **P},
        {"dir": "both", "cday": "first", "hday": "first", "shape": "1h", "base": 0.2, **P},
        {"dir": "both", "cday": "last", "hday": "last", "shape": "6h", "base": 0.2, **P},
        {"dir": "both", "cday": "mid", "hday": "second", "shape": "30h", "base": 0.2, **P},
        # the load held at its monthly maximum through the whole last / first day of the month (the peak window reaches the month boundary)
        {"dir": "c", "cday": "last", "shape": "24h", "base": 0.2, "ch": 0, **P},
        {"dir": "h", "hday": "last", "shape": "24h", "base": 0.2, "hh": 0, **P},
        {"dir": "c", "cday": "first", "shape": "24h", "base": 0.2, "ch": 0, **P},
        {"dir": "h", "hday": "first", "shape": "24h", "base": 0, "hh": 0, **P},
        # both peaks on one day: heating in the morning, cooling in the afternoon (and the other way round)
        {"dir": "both", "cday": "mid", "hday": "mid", "shape": "1h", "base": 0.2, "hh": 7, "ch": 15, **P},
        {"dir": "both", "cday": "last", "hday": "last", "shape": "6h", "base": 0, "hh": 5, "ch": 14, **P},
        {"dir": "both", "cday": "second", "hday": "second", "shape": "1h", "base": 0.2, "hh": 16, "ch": 8, **P},
        {"dir": "c", "cday": "last", "shape": "24h", "base": 0.95, "ch": 0, **P},
    ]
    cases = [{"profile": "patterns", "patterns": [p] * 12} for p in pats]
    # alternating months (cooling-only summers, heating-only winters)
    alt = [pats[5] if m in (0, 1, 2, 10, 11) else pats[3] if m in (5, 6, 7) else pats[8] for m in range(12)]
    cases.append({"profile": "patterns", "patterns": alt})
    cases += [{"profile": "office"}, {"profile": "mirror"}, {"profile": "office", "scale": 0.01},
              {"profile": "const", "value": 5000.0}, {"profile": "const", "value": -5000.0}, {"profile": "const", "value": 0.0}]
    return cases


def check_axis(case, n_months, res, loads, ref, hl=None, c1=None):
    res["evals"] += 1
    c1 = c1 or dict(case, horizon=n_months)
    if hl is None:
        try:
            hl = hybrid.make_hybrid(loads, n_months)
        except Exception as e:  # noqa: BLE001
            res["violations"].append(core.viol("hybrid_load_raised", c1, msg=f"HybridLoad raised {type(e).__name__}: {e}", exc=type(e).__name__))
            return
    try:
        _check_axis_body(c1, n_months, res, ref, hl)
    except (IndexError, KeyError) as e:
        res["violations"].append(core.viol("hybrid_load_malformed", c1, msg=f"horizon {n_months}: the hybrid load's arrays do not cover the horizon ({type(e).__name__}: {e}); "
                                                                           f"end_month={getattr(hl, 'end_month', None)}, {len(hl.hour)} breakpoints", exc=type(e).__name__))


def _check_axis_body(c1, n_months, res, ref, hl):
    hour = [float(h) for h in hl.hour]
    ends = LG.month_end_hours(n_months)

    def v(kind, msg, **attrs):
        res["violations"].append(core.viol(kind, c1, msg=f"horizon {n_months}: {msg}", **attrs))

    if len(hour) < 3 or hour[0] != 0.0 or hour[1] != 0.0:
        v("axis_does_not_start_at_zero", f"hour[0:2] = {hour[:2]}")
    if hour[-1] != float(ends[-1]):
        v("axis_does_not_end_at_horizon", f"last breakpoint {hour[-1]} but the horizon ends at hour {ends[-1]}", observed=hour[-1], expected=ends[-1])
    hs = set(hour)
    missing = [m + 1 for m in range(n_months) if float(ends[m]) not in hs]
    if missing:
        v("month_end_missing", f"no breakpoint at the end of simulated month(s) {missing[:6]}", first_missing_calendar_month=((missing[0] - 1) % 12) + 1)
    # month m+12 repeats month m
    for name in ("monthly_cl", "monthly_hl", "monthly_peak_cl", "monthly_peak_hl", "monthly_peak_cl_duration",
                 "monthly_peak_hl_duration", "monthly_peak_cl_day", "monthly_peak_hl_day"):
        arr = getattr(hl, name)
        for m in range(13, n_months + 1):
            if m < len(arr) and arr[m] != arr[m - 12]:
                v("month_not_repeated", f"{name}[{m}] = {arr[m]} differs from {name}[{m - 12}] = {arr[m - 12]}", field=name)
                break
        if n_months > 12 and len(arr) < n_months + 1:
            v("month_not_repeated", f"{name} has {len(arr)} entries for {n_months} months", field=name)
    # strict ordering where the reported windows are disjoint and strictly inside the month
    pos = 2
    retain = lambda i: i < 1 + 12 or i > n_months - 12  # noqa: E731
    for m in range(n_months):
        i = m + 1
        start = ends[m] - ref[m % 12]["hours"]
        r = ref[m % 12]
        wins = []
        if retain(i):
            dc = float(hl.monthly_peak_cl_duration[i]) if r["peak_rej"] > 0 else None
            dh = float(hl.monthly_peak_hl_duration[i]) if r["peak_ext"] > 0 else None
            noon_c = start + 1 + 24 * r["day_rej"] + 12
            noon_h = start + 1 + 24 * r["day_ext"] + 12
            if dc is not None and dh is not None and r["day_rej"] == r["day_ext"]:
                wins = [(noon_c - dc, noon_c), (noon_h, noon_h + dh)]
            else:
                if dc is not None:
                    wins.append((noon_c - dc / 2, noon_c + dc / 2))
                if dh is not None:
                    wins.append((noon_h - dh / 2, noon_h + dh / 2))
        wins.sort()
        ok_windows = all(w[0] > start and w[1] < ends[m] and w[1] > w[0] for w in wins) and all(
            wins[k][1] <= wins[k + 1][0] for k in range(len(wins) - 1))
        # the breakpoints of this month: after the previous month end up to this month end
        try:
            end_idx = max(j for j in range(len(hour)) if hour[j] == float(ends[m]) and j >= pos)
        except ValueError:
            break
        seg = hour[pos - 1:end_idx + 1]
        if ok_windows:
            res.bump("months_with_disjoint_windows")
            if any(seg[k + 1] <= seg[k] for k in range(len(seg) - 1)):
                same_day_abut = len(wins) == 2 and wins[0][1] == wins[1][0]
                v("breakpoints_not_increasing", f"simulated month {i}: breakpoints {seg} are not strictly increasing although the "
                  f"reported peak windows {wins} are disjoint and inside the month", abutting=same_day_abut)
                break
        else:
            res.bump("months_with_overlapping_windows")
        pos = end_idx + 1


def run_via_ghe(case, res):
    """the hybrid loads as real GHE objects build them, for a sequence of horizons in one process (same loads, same borehole)"""
    from ghedesigner.enums import TimestepType

    from vf import ghe_factory

    base = {k: v for k, v in case.items() if k not in ("via_ghe", "sequence")}
    loads = c06.profile_of(base)
    ref = LG.monthly_reference(loads)
    coords = [(0.0, 0.0), (0.0, 5.0), (5.0, 0.0), (5.0, 5.0)]
    for k, n in enumerate(case["sequence"]):
        if case.get("leap_year_between") and k > 0:
            # a design for a leap load year (8784 hourly values) is built in between, as a study over weather years does
            hybrid.make_hybrid(c06.leapify(loads), 12, years=[2020])
        gf = ghe_factory.table_gfunction(coords, 5.0, [60.0, 97.5, 135.0], 0.075)
        ghe = ghe_factory.make_ghe(coords, H=97.5, loads=loads, months=n, gfunc=gf)
        c1 = dict(case, sequence=case["sequence"][:k + 1])
        check_axis(base, n, res, loads, ref, hl=ghe.hybrid_load, c1=c1)
        try:
            ghe.simulate(method=TimestepType.HYBRID)
        except Exception as e:  # noqa: BLE001
            res["violations"].append(core.viol("simulation_on_hybrid_axis_raises", c1, msg=f"{type(e).__name__}: {e}"))
            continue
        _check_run_axis(ghe, n, res, c1)
    res["nontrivial"] += 1
    res.outcome("via_ghe_sequences")
    res["sample"] = dict(case)


def run_manager_history(case, res):
    """one GHEManager whose horizon is set, then set again (set_simulation_parameters twice, set_design after), then designed with the
    real physics: the exchanger the design returns must run on the axis of the horizon requested last"""
    from vf import physics

    loads = physics.loads(case["load"])
    ref = LG.monthly_reference(loads)
    hist = case["manager_history"]
    m = physics.manager("nearsquare", load=case["load"], months=hist[0], geo=case.get("geo"))
    for n in hist[1:]:
        m.set_simulation_parameters(num_months=n, max_eft=35.0, min_eft=5.0, max_height=135.0, min_height=60.0)
        m.set_design(flow_rate=0.3, flow_type_str="borehole")
    exc = physics.find(m)
    res["evals"] += 1
    if exc is not None:
        res.bump("manager_history_no_design")
        res.outcome("manager_history_no_design")
        return
    ghe = m._search.ghe
    n = hist[-1]
    check_axis({"load": case["load"]}, n, res, loads, ref, hl=ghe.hybrid_load, c1=dict(case))
    _check_run_axis(ghe, n, res, dict(case))
    res["nontrivial"] += 1
    res.outcome("manager_histories")
    res["sample"] = dict(case)


def _check_run_axis(ghe, n_months, res, c1):
    """the axis the hybrid simulation actually ran on (GHE.times / loading / hp_eft, the time column of the outputs)"""
    import numpy as np

    end = LG.month_end_hours(n_months)[-1]
    t = np.asarray(ghe.times, dtype=float)
    hl = np.asarray(ghe.hybrid_load.hour[2:], dtype=float)
    bad = None
    if len(t) == 0 or t[-1] != end:
        bad = f"the simulated axis ends at hour {t[-1] if len(t) else None}, the {n_months}-month horizon ends at hour {end}"
    elif len(t) != len(hl) or np.any(t != hl):
        bad = f"the simulated axis has {len(t)} steps, the hybrid sequence {len(hl)}"
    elif len(ghe.hp_eft) != len(t) or len(ghe.loading) != len(t):
        bad = f"{len(ghe.hp_eft)} fluid temperatures / {len(ghe.loading)} loads for {len(t)} time steps"
    if bad:
        res["violations"].append(core.viol("simulated_axis_differs_from_horizon", c1, msg=bad, mod12=n_months % 12 if n_months % 12 in (0, 1) else "other"))


def run_case(case):
    res = core.Result(evals=0)
    if case.get("via_ghe"):
        run_via_ghe(case, res)
        return res
    if case.get("manager_history"):
        run_manager_history(case, res)
        return res
    loads = c06.profile_of(case)
    ref = LG.monthly_reference(loads)
    hs = [case["horizon"]] if "horizon" in case else case["horizons"]
    base = {k: v for k, v in case.items() if k not in ("horizons", "horizon")}
    for n in hs:
        check_axis(base, n, res, loads, ref)
    res["nontrivial"] = sum(1 for n in hs if n % 12 != 0)
    res.outcome("horizon_multiple_of_12", sum(1 for n in hs if n % 12 == 0))
    res.outcome("horizon_not_multiple_of_12", sum(1 for n in hs if n % 12 != 0))
    res["sample"] = dict(base, horizons=hs[:5])
    return res


def main(run: core.Run, only=None):
    reps = representatives()
    cases = []
    if run.tier == "quick":
        for c in reps:
            cases.append(dict(c, horizons=QUICK_H))
    else:
        for c in reps:
            for lo in range(1, 361, 20):
                cases.append(dict(c, horizons=list(range(lo, min(361, lo + 20)))))
    run.drive(cases, family="axis")
    via = []
    for c in (reps[1], reps[8], reps[15], reps[16]) if run.tier == "quick" else reps[::2]:
        for seq in ([240, 360, 30], [12, 24, 12], [37, 13, 1]):
            via.append(dict(c, via_ghe=True, sequence=seq))
        via.append(dict(c, via_ghe=True, sequence=[30, 30, 13], leap_year_between=True))
    run.drive(via, family="via-ghe-sequences")
    hists = [[24, 13], [12, 36], [13, 12]] if run.tier == "quick" else [[24, 13], [12, 36], [13, 12], [1, 25], [36, 7], [24, 24], [12, 13, 14]]
    mh = [{"manager_history": h, "load": ld} for h in hists for ld in (("office",) if run.tier == "quick" else ("office", "balanced"))]
    run.drive(mh, family="manager-histories", chunksize=1)
    return run.finish(
        rule="family manager-histories: one manager whose horizon is set twice through the public setters, designed with the real physics, the returned exchanger's axis checked; family via-ghe-sequences: the hybrid loads built by real GHE objects for sequences of horizons in one process; family axis: 22 representative profiles x horizons (quick: 14 horizons; thorough: every horizon 1..360); one evaluation = one "
             "HybridLoad whose hour axis is checked; non-trivial = horizon not a multiple of 12",
        bounds={"profiles": len(reps), "horizons": QUICK_H if run.tier == "quick" else "1..360"},
        assumptions=["non-leap 8760-hour years", "peak windows are rebuilt from the reported durations and the input profile's own "
                     "peak days; months whose windows overlap each other or a month boundary are counted, not asserted for ordering"],
        require_outcomes=("horizon_not_multiple_of_12", "via_ghe_sequences", "manager_histories"),
    )
