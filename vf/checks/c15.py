"""C15 - the equivalent single U-tube preserves the exchanger's bulk properties.

Alphabet : double U-tube (series, parallel): 3 pipe sizes x 3 shank spacings x 3 borehole radii (those that fit); coaxial: 3 radius
           sets x 3 borehole radii; grout k x soil k x pipe k x fluid x flow: full factorial lattice.
Oracle   : own formulas from the raw radii for fluid / wall volume per metre; R_conv + R_pipe as the tool documents them, recomputed
           independently (vf/oracles/pipes.py); effective borehole resistance of the original vs the equivalent tube as the tool itself
           evaluates it (calc_effective_borehole_resistance), 0.1 %; single U-tube converts to itself.
"""
from __future__ import annotations

import warnings
from math import log, pi, sqrt

from vf import core

SIZES = [(0.0109, 0.0134), (0.0136, 0.0167), (0.0170, 0.0211), (0.0140, 0.0160), (0.0185, 0.0200)]  # (r_in, r_out); the last two are thin-walled (SDR-17 32 x 2.0, 40 x 1.5 mm)
SHANKS = [0.010, 0.01856, 0.032]
RBS = [0.055, 0.070, 0.100]
COAX = [((0.0221, 0.025), (0.0487, 0.055)), ((0.016, 0.020), (0.040, 0.045)), ((0.025, 0.0285), (0.0575, 0.0625)),
        ((0.0176, 0.020), (0.05515, 0.05715))]  # (inner pipe radii), (outer pipe radii); the last: 40 x 2.4 mm inner pipe in a 114.3 x 2.0 mm casing
KG = [0.6, 1.0, 2.5]
KS = [1.0, 2.0, 4.0]
KP = [0.3, 0.45]
FLUIDS = [("Water", 0.0), ("PROPYLENEGLYCOL", 20.0), ("ETHYLENEGLYCOL", 30.0)]
MDOT = [0.05, 0.2, 0.5, 1.0]


def init_worker():
    import ghedesigner.borehole_heat_exchangers as b

    warnings.filterwarnings("ignore")
    for n in ("get_bhe_object", "SingleUTube", "MultipleUTube", "CoaxialPipe"):
        if not hasattr(b, n):
            raise core.HarnessError(f"seam missing: borehole_heat_exchangers.{n}")


def build(cfg):
    import pygfunction as gt
    from ghedesigner.borehole import GHEBorehole
    from ghedesigner.borehole_heat_exchangers import get_bhe_object
    from ghedesigner.enums import BHPipeType
    from ghedesigner.media import GHEFluid, Grout, Pipe, Soil

    fluid = GHEFluid(cfg["fluid"][0], cfg["fluid"][1])
    soil = Soil(cfg["k_s"], 2343493.0, 18.3)
    grout = Grout(cfg["k_g"], 3901000.0)
    bh = GHEBorehole(100.0, 2.0, cfg["rb"], x=0.0, y=0.0)
    if cfg["type"] == "coaxial":
        r_inner, r_outer = cfg["coax"]
        pipe = Pipe((0, 0), list(r_inner), list(r_outer), 0, 1.0e-6, [cfg.get("k_p_inner", cfg["k_p"]), cfg["k_p"]], 1542000.0)
        t = BHPipeType.COAXIAL
    else:
        r_in, r_out = cfg["size"]
        npipes = 1 if cfg["type"] == "single" else 2
        pipe = Pipe(Pipe.place_pipes(cfg["shank"], r_out, npipes), r_in, r_out, cfg["shank"], 1.0e-6, cfg["k_p"], 1542000.0)
        t = {"single": BHPipeType.SINGLEUTUBE, "double_parallel": BHPipeType.DOUBLEUTUBEPARALLEL, "double_series": BHPipeType.DOUBLEUTUBESERIES}[cfg["type"]]
    return get_bhe_object(t, cfg["mdot"], fluid, bh, pipe, grout, soil), gt


def fits(cfg):
    if cfg["type"] == "coaxial":
        return cfg["coax"][1][1] < cfg["rb"] - 0.002
    r_out = cfg["size"][1]
    return cfg["shank"] / 2 + 2 * r_out < cfg["rb"] - 0.001 and (cfg["type"] == "single" or (cfg["shank"] / 2 + r_out) * sqrt(2) > 2 * r_out * 0.71)


def check_one(cfg, res):
    if not fits(cfg):
        res.bump("does_not_fit_skipped")
        return
    res["evals"] += 1
    try:
        bhe, gt = build(cfg)
    except Exception as e:  # noqa: BLE001
        res.bump("construction_rejected")
        return
    rb_orig = bhe.calc_effective_borehole_resistance()
    try:
        eq = bhe.to_single()
    except Exception as e:  # noqa: BLE001
        res["violations"].append(core.viol("to_single_raised", cfg, msg=f"{cfg['type']}: to_single raised {type(e).__name__}: {e}", exc=type(e).__name__, type=cfg["type"]))
        return

    def v(kind, msg, **attrs):
        res["violations"].append(core.viol(kind, cfg, msg=f"{cfg['type']}: {msg}", type=cfg["type"], **attrs))

    if cfg["type"] == "single":
        if eq is not bhe:
            v("single_u_tube_not_itself", "to_single() of a single U-tube is a different object")
        res.outcome("single")
        return
    # volumes per metre from the raw radii
    if cfg["type"] == "coaxial":
        (rii, rio), (roi, roo) = cfg["coax"]
        vol_f = pi * (rii ** 2 + roi ** 2 - rio ** 2)
        vol_p = pi * (rio ** 2 - rii ** 2 + roo ** 2 - roi ** 2)
        h_a_in, _h_a_out = gt.pipes.convective_heat_transfer_coefficient_concentric_annulus(cfg["mdot"], rio, roi, bhe.fluid.mu, bhe.fluid.rho, bhe.fluid.k, bhe.fluid.cp, 1.0e-6)
        r_conv = 1.0 / (h_a_in * pi * 2 * roi)
        r_pipe = log(roo / roi) / (2 * pi * cfg["k_p"])
    else:
        r_in, r_out = cfg["size"]
        n = 4
        vol_f = n * pi * r_in ** 2
        vol_p = n * pi * (r_out ** 2 - r_in ** 2)
        m_pipe = cfg["mdot"] / 2.0 if cfg["type"] == "double_parallel" else cfg["mdot"]
        h = gt.pipes.convective_heat_transfer_coefficient_circular_pipe(m_pipe, r_in, bhe.fluid.mu, bhe.fluid.rho, bhe.fluid.k, bhe.fluid.cp, 1.0e-6)
        r_conv = 1.0 / (h * n * pi * (2 * r_in) ** 2)  # as the tool documents it
        r_pipe = log(r_out / r_in) / (n * 2 * pi * cfg["k_p"])
    ri, ro = float(eq.pipe.r_in), float(eq.pipe.r_out)
    if abs(2 * pi * ri ** 2 - vol_f) > 1e-12 * vol_f:
        v("fluid_volume_not_preserved", f"equivalent tube holds {2 * pi * ri ** 2} m3/m of fluid, the original {vol_f}", observed=2 * pi * ri ** 2, expected=vol_f)
    if abs(2 * pi * (ro ** 2 - ri ** 2) - vol_p) > 1e-9 * vol_p:
        v("wall_volume_not_preserved", f"equivalent tube has {2 * pi * (ro ** 2 - ri ** 2)} m3/m of pipe wall, the original {vol_p}", observed=2 * pi * (ro ** 2 - ri ** 2), expected=vol_p)
    # combined convective + pipe resistance
    eq.calc_fluid_pipe_resistance()
    want_fp = r_conv + r_pipe
    k0 = log(ro / ri) / (2 * pi * 2 * r_pipe)
    k_lo, k_hi = k0 / 100.0, k0 * 10.0
    at_end = min(abs(eq.pipe.k - k_lo), abs(eq.pipe.k - k_hi)) <= 1e-9 * k_hi
    if abs(eq.R_fp - want_fp) > 1e-4 * want_fp:
        re = gt.pipes  # noqa: F841
        v("fluid_pipe_resistance_not_reproduced", f"equivalent tube R_fp = {eq.R_fp}, original R_conv + R_pipe = {want_fp} (pipe k = {eq.pipe.k})", observed=eq.R_fp, expected=want_fp,
          pipe_k_at_bracket_end=bool(at_end), laminar=bool(cfg["mdot"] <= 0.05))
    # effective borehole resistance, as the tool itself evaluates both objects
    rb_eq = eq.calc_effective_borehole_resistance()
    kg_end = min(abs(eq.grout.k - 0.01), abs(eq.grout.k - 7.0)) <= 1e-9
    if abs(rb_eq - rb_orig) > 1e-3 * rb_orig:
        v("borehole_resistance_not_reproduced", f"equivalent tube R_b* = {rb_eq}, original R_b* = {rb_orig} ({100 * (rb_eq / rb_orig - 1):+.1f} %), matched grout k = {eq.grout.k}",
          observed=rb_eq, expected=rb_orig, grout_k_at_bracket_end=bool(kg_end))
    res.outcome(cfg["type"])
    res["nontrivial"] += 1


def refreshed_rb(b, coax):
    if coax:
        b.update_thermal_resistances(b.R_ff, b.R_fp)
    else:
        b.update_thermal_resistances(b.R_fp)
    return b.calc_effective_borehole_resistance()


def check_sequence(cfg, res):
    """one exchanger object: convert, check that the original is untouched, re-rate it in place, convert again; the second
    equivalent must equal the conversion of a freshly built twin"""
    if not fits(cfg) or cfg["type"] == "single":
        return
    coax = cfg["type"] == "coaxial"
    try:
        bhe, _ = build(cfg)
        build(dict(cfg, mdot=cfg["mdot"] * 1.8))
    except Exception:  # noqa: BLE001
        res.bump("construction_rejected")
        return
    res["evals"] += 1

    def v(kind, msg, **a):
        res["violations"].append(core.viol(kind, dict(cfg, sequence=True), msg=f"{cfg['type']}: {msg}", type=cfg["type"], **a))

    rb0 = refreshed_rb(bhe, coax)
    st0 = (float(bhe.k_g), float(bhe.grout.k), float(bhe.b.r_b), float(bhe.m_flow_borehole))
    eq1 = bhe.to_single()
    st1 = (float(bhe.k_g), float(bhe.grout.k), float(bhe.b.r_b), float(bhe.m_flow_borehole))
    rb1 = refreshed_rb(bhe, coax)
    if st1 != st0 or abs(rb1 - rb0) > 1e-12 * abs(rb0):
        v("conversion_changes_the_original", f"after to_single() the original's (k_g, grout.k, r_b, m_flow) went from {st0} to {st1}; its R_b* after refreshing the circuit from {rb0} to {rb1}")
    # re-rate in place (another design flow), as a parameter study on one object would
    factor = 1.8
    bhe.m_flow_borehole = bhe.m_flow_borehole * factor
    if hasattr(bhe, "m_flow_pipe"):
        bhe.m_flow_pipe = bhe.calc_mass_flow_pipe(bhe.m_flow_borehole, bhe.flow_config)
    bhe.calc_fluid_pipe_resistance()
    refreshed_rb(bhe, coax)
    eq2 = bhe.to_single()
    twin, _ = build(dict(cfg, mdot=cfg["mdot"] * factor))
    eqf = twin.to_single()
    for e in (eq2, eqf):
        e.calc_fluid_pipe_resistance()
    pairs = {"m_flow_borehole": (eq2.m_flow_borehole, eqf.m_flow_borehole), "R_fp": (eq2.R_fp, eqf.R_fp), "pipe.k": (eq2.pipe.k, eqf.pipe.k),
             "r_in": (eq2.pipe.r_in, eqf.pipe.r_in), "r_out": (eq2.pipe.r_out, eqf.pipe.r_out), "grout.k": (eq2.grout.k, eqf.grout.k)}
    bad = [k for k, (a, b) in pairs.items() if abs(float(a) - float(b)) > 1e-9 * max(1e-12, abs(float(b)))]
    if bad:
        v("second_conversion_differs_from_fresh", f"after re-rating the exchanger in place (flow x {factor}) its equivalent differs from a freshly built twin's in {bad}: "
          + ", ".join(f"{k} {float(pairs[k][0])!r} vs {float(pairs[k][1])!r}" for k in bad[:3]), fields=bad[0])
    if eq2 is eq1:
        res.bump("same_object_returned_twice")
    res.outcome("sequences")
    res["nontrivial"] += 1


def expand(chunk):
    t = chunk["type"]
    geoms = []
    if t == "coaxial":
        # inner pipe as conductive as the outer one, insulated (0.1), or more conductive (1.2)
        geoms = [{"coax": [list(c[0]), list(c[1])], "rb": rb, **({"k_p_inner": ki} if ki else {})} for c in COAX for rb in RBS for ki in (None, 0.1, 1.2)]
    else:
        geoms = [{"size": list(s), "shank": sh, "rb": rb} for s in SIZES for sh in SHANKS for rb in RBS]
    for g in geoms[chunk["glo"]:chunk["ghi"]]:
        for kg in chunk["kg"]:
            for ks in chunk["ks"]:
                for kp in chunk["kp"]:
                    for fl in chunk["fluids"]:
                        for md in chunk["mdot"]:
                            yield dict(g, type=t, k_g=kg, k_s=ks, k_p=kp, fluid=list(fl), mdot=md)


def run_case(case):
    res = core.Result(evals=0)
    if "k_g" in case:
        if case.get("sequence"):
            check_sequence({k: v for k, v in case.items() if k != "sequence"}, res)
        else:
            check_one(case, res)
        return res
    for k, cfg in enumerate(expand(case)):
        check_one(cfg, res)
        if k % case.get("seq_every", 7) == 0:
            check_sequence(cfg, res)
        if res["sample"] is None:
            res["sample"] = cfg
    return res


def main(run: core.Run, only=None):
    quick = run.tier == "quick"
    kg, ks, kp = (KG[::2], KS[::2], KP[:1]) if quick else (KG, KS, KP)
    fluids = FLUIDS[:2] if quick else FLUIDS
    md = MDOT[::3] + [0.2] if quick else MDOT
    cases = []
    n_u, n_c = len(SIZES) * len(SHANKS) * len(RBS), len(COAX) * len(RBS) * 3
    for t, ng in (("double_parallel", n_u), ("double_series", n_u), ("coaxial", n_c), ("single", n_u)):
        for lo in range(0, ng, 3):
            cases.append({"type": t, "glo": lo, "ghi": min(ng, lo + 3), "kg": kg, "ks": ks, "kp": kp, "fluids": fluids, "mdot": md if t != "single" else md[:1]})
    run.drive(cases, family="conversions")
    return run.finish(
        rule="full factorial lattice geometry x grout k x soil k x pipe k x fluid x flow for double U-tube (series, parallel), coaxial and "
             "single U-tube; one evaluation = one to_single() conversion; non-trivial = every double-U / coaxial conversion",
        bounds={"pipe_sizes": SIZES, "shank_spacings": SHANKS, "borehole_radii": RBS, "coaxial_sets": len(COAX), "k_g": kg, "k_s": ks, "k_p": kp,
                "fluids": [f[0] for f in fluids], "mdot": md},
        assumptions=["pygfunction's convection correlations and multipole resistance are trusted",
                     "R_conv and R_pipe are the tool's documented definitions (n tubes, inner surface n*pi*(2 r_in)^2, wall ln(ro/ri)/(n 2 pi k))",
                     "the equivalent tube's R_b* is taken as the tool itself evaluates it (calc_effective_borehole_resistance on the returned object)"],
        require_outcomes=("double_parallel", "double_series", "coaxial", "single", "sequences"),
    )
