"""C19 - output tables label time correctly and echo inputs and the selected field.

(a) ghe_time_convert(h) for ALL h in 0..8759 against datetime; (b) hours_to_month on the complete 0.25 h grid over
3 (quick) / 30 (thorough) years: strictly increasing, continuous, integer at month ends; (c) the row builders of
OutputManager on real GHE objects (fields x load lists x pipe types): Loadings echoes the 8760 inputs with the oracle's
labels, BoreFieldData lists the coordinates in order, Gfunction has strictly increasing time and the rows of the curve
that simulate() actually used.
"""
from __future__ import annotations

import json
import os

import datetime as dt
from types import SimpleNamespace

from vf import core, ghe_factory, loadgen as LG

_om = None


def init_worker():
    global _om
    from ghedesigner.output import OutputManager

    for n in ("ghe_time_convert", "hours_to_month", "get_hourly_loading_data", "get_borehole_location_data", "get_g_function_data"):
        if not hasattr(OutputManager, n):
            raise core.HarnessError(f"seam missing: OutputManager.{n}")
    _om = OutputManager


def month_ends_hours():
    return LG.month_end_hours(12)


def run_case(case):
    if case.get("engine") == "B":
        from vf import explore_physics as EP

        EP.init_worker()
        r = EP.run_chunk(dict(case, conformance=False), ("C19",))
        r["outcomes"] = {"real_runs": r["evals"]}
        r["states"], r["transitions"] = [], []
        return r
    res = core.Result(evals=0)
    k = case["kind"]
    if k == "rerun":
        run_rerun(case, res)
        return res
    if k == "time_convert":
        t0 = dt.datetime(2019, 1, 1)
        for h in range(case["lo"], case["hi"]):
            res["evals"] += 1
            d = t0 + dt.timedelta(hours=h)
            want = (d.month, d.day, d.hour + 1)
            got = tuple(_om.ghe_time_convert(h))
            if got != want:
                res["violations"].append(core.viol("hour_label_wrong", {"kind": "time_convert", "lo": h, "hi": h + 1}, observed=list(got), expected=list(want),
                                                   msg=f"ghe_time_convert({h}) = {got}, calendar says {want}", month=want[0],
                                                   field=["month", "day", "hour"][[a != b for a, b in zip(got, want)].index(True)]))
            if d.day == 1 or (d + dt.timedelta(days=1)).day == 1:
                res["nontrivial"] += 1
        res.outcome("hours_labelled", case["hi"] - case["lo"])
        res["sample"] = {"kind": "time_convert", "hours": [case["lo"], case["hi"]]}
    elif k == "hours_to_month":
        ends = month_ends_hours()
        y0, y1 = case["years"]
        prev = None
        t = y0 * 8760.0 - (0.25 if y0 > 0 else 0.0)
        stop = y1 * 8760.0
        end_set = {yy * 8760 + e for yy in range(y0, y1) for e in ends}
        while t <= stop + 1e-9:
            res["evals"] += 1
            f = _om.hours_to_month(t)
            if prev is not None:
                pt, pf = prev
                if not (f > pf):
                    res["violations"].append(core.viol("hours_to_month_not_increasing", {"kind": "hours_to_month", "years": [y0, y1], "at": t},
                                                       msg=f"hours_to_month({t}) = {f} <= hours_to_month({pt}) = {pf}", at_month_end=(t in end_set or pt in end_set)))
                    break
                if f - pf > 0.25 / 672.0 + 1e-12:
                    res["violations"].append(core.viol("hours_to_month_jump", {"kind": "hours_to_month", "years": [y0, y1], "at": t},
                                                       msg=f"hours_to_month jumps from {pf} at {pt} h to {f} at {t} h", at_month_end=(t in end_set or pt in end_set)))
                    break
            if t in end_set:
                res["nontrivial"] += 1
                if abs(f - round(f)) > 1e-9:
                    res["violations"].append(core.viol("month_end_not_integer", {"kind": "hours_to_month", "years": [y0, y1], "at": t},
                                                       msg=f"hours_to_month({t}) = {f} at a month end"))
                    break
                # which month end: integer must be the month count
                yy = int(t // 8760) if t % 8760 else int(t // 8760) - 1
                within = t - yy * 8760
                want = yy * 12 + ends.index(int(within)) + 1
                if abs(f - want) > 1e-9:
                    res["violations"].append(core.viol("month_end_wrong_integer", {"kind": "hours_to_month", "years": [y0, y1], "at": t},
                                                       msg=f"hours_to_month({t}) = {f}, expected {want}"))
                    break
            prev = (t, f)
            t += 0.25
        res.outcome("quarter_hours_converted", 1)
        res["sample"] = {"kind": "hours_to_month", "years": [y0, y1], "step_h": 0.25}
    elif k == "tables":
        from ghedesigner.enums import TimestepType

        coords = [tuple(p) for p in case["coords"]]
        loads = make_loads(case["loads"])
        # earlier outputs in the same process (a parameter study): tables built for another design first, inside this case,
        # so that the history is part of the case and replays from a fresh interpreter
        for prev in case.get("history", []):
            pg = ghe_factory.make_ghe([tuple(p) for p in prev["coords"]], pipe="single", H=95.0, loads=make_loads(prev["loads"]), months=12)
            pd = SimpleNamespace(ghe=pg, searchTracker=[])
            pg.simulate(method=TimestepType.HYBRID)
            om0 = _om.__new__(_om)
            om0.get_hourly_loading_data(pd)
            _om.get_borehole_location_data(pd)
            _om.get_g_function_data(pd)
        gf_other = None
        if case.get("library_rb"):
            # a long-time family computed (tabulated) for another borehole radius than the exchanger's: the simulation corrects for it
            gf_other = ghe_factory.table_gfunction(coords, 5.0 if len(coords) > 1 else 0.075, case.get("library_heights", [60.0, 97.5, 135.0]), case["library_rb"])
        ghe = ghe_factory.make_ghe(coords, pipe=case["pipe"], H=case["H"], loads=loads, months=case.get("months", 12), load_years=case.get("load_years"), gfunc=gf_other,
                                   **({"rb": case["rb"]} if case.get("rb") else {}))
        captured = {}
        orig = ghe._simulate_detailed

        def spy(q_dot, time_values, g):
            captured["g"] = g
            return orig(q_dot, time_values, g)

        ghe._simulate_detailed = spy

        if case.get("hourly_first"):
            # select / size with the hybrid method, validate with the hourly one (the documented workflow), then build the tables
            ghe._simulate_detailed = orig
            ghe.simulate(method=TimestepType.HOURLY)
            ghe._simulate_detailed = spy
        ghe.simulate(method=TimestepType.HYBRID)
        design = SimpleNamespace(ghe=ghe, searchTracker=[])
        om = _om.__new__(_om)
        res["evals"] += 3
        rows = om.get_hourly_loading_data(design)
        t0 = dt.datetime(2019, 1, 1)
        ok = len(rows) == 8761
        bad = None
        if ok:
            for h in range(8760):
                d = t0 + dt.timedelta(hours=h)
                want = [d.month, d.day, d.hour + 1, h, loads[h]]
                if list(rows[h + 1]) != want:
                    bad = (h, list(rows[h + 1]), want)
                    break
        if not ok or bad:
            res["violations"].append(core.viol("loadings_table_wrong", case, msg=f"Loadings table: {len(rows) - 1} rows; first mismatch {bad}", observed=bad))
        rows = _om.get_borehole_location_data(design)
        if [list(map(float, r)) for r in rows[1:]] != [list(map(float, c)) for c in coords]:
            res["violations"].append(core.viol("borefield_table_wrong", case, msg=f"BoreFieldData rows differ from the field's coordinates (rows {len(rows) - 1}, coordinates {len(coords)})"))
        rows = _om.get_g_function_data(design)
        xs = [r[0] for r in rows[1:]]
        g = captured.get("g")
        if any(xs[i + 1] <= xs[i] for i in range(len(xs) - 1)):
            res["violations"].append(core.viol("gfunction_table_time_not_increasing", case, msg="Gfunction table: ln(t/ts) column is not strictly increasing"))
        if g is None or list(map(float, g.x)) != [float(x) for x in xs] or list(map(float, g.y)) != [float(r[1]) for r in rows[1:]]:
            res["violations"].append(core.viol("gfunction_table_differs_from_simulated_curve", case, msg="Gfunction table rows differ from the curve simulate() used"))
        _, g_bhw = ghe.grab_g_function(ghe.B_spacing / float(ghe.bhe.b.H))
        if list(map(float, g_bhw.y)) != [float(r[2]) for r in rows[1:]]:
            res["violations"].append(core.viol("gfunction_table_bhw_column_wrong", case, msg="Gfunction table bhw column differs from grab_g_function"))
        res["nontrivial"] += 1
        res.outcome("tables_built", 1)
        res["sample"] = {k2: v for k2, v in case.items()}
    return res


def run_rerun(case, res):
    """one manager used for two designs in a row (a study: design, write, change the loads, design, write - same labels): the files of
    the second run must echo the second run's loads, field and g-function"""
    import csv
    import io

    from vf import physics

    m = physics.manager(case["method"], pipe="single", load=case["loads"][0], months=12)
    import tempfile
    from pathlib import Path

    outdir = Path(tempfile.mkdtemp(prefix="vf-c19-"))
    outs = []
    for step, ld in enumerate(case["loads"]):
        if step > 0:
            m.set_ground_loads_from_hourly_list(list(physics.loads(ld)))
            m.set_design(flow_rate=0.3, flow_type_str="borehole")
        e = physics.find(m)
        res["evals"] += 1
        if e is not None:
            res.bump("rerun_design_failed")
            return
        # the same four labels every time, and the same output directory (the files of the earlier run are overwritten)
        import warnings as _w
        from contextlib import redirect_stderr as _re, redirect_stdout as _ro

        with _w.catch_warnings():
            _w.simplefilter("ignore")
            with _ro(io.StringIO()), _re(io.StringIO()):
                m.prepare_results("verif", "notes", "vf", "study")
                m.write_output_files(outdir)
        files = {pth.name: pth.read_text() for pth in outdir.iterdir()}
        outs.append((ld, files, [list(map(float, c)) for c in m._search.ghe.gFunction.bore_locations], float(m._search.ghe.bhe.b.H)))
    ld, files, coords, h = outs[-1]
    c1 = dict(case)
    want = list(physics.loads(ld))
    lrows = list(csv.reader(io.StringIO(files["Loadings.csv"])))[1:]
    if len(lrows) != 8760 or any(abs(float(r[4]) - w) > 1e-9 * max(1.0, abs(w)) for r, w in zip(lrows, want)):
        res["violations"].append(core.viol("loadings_table_wrong", c1, msg=f"run {len(outs)} on one manager ({ld} loads after {case['loads'][:-1]}): Loadings.csv has {len(lrows)} rows / does not echo this run's loads", rerun=True))
    brows = [list(map(float, r)) for r in list(csv.reader(io.StringIO(files["BoreFieldData.csv"])))[1:]]
    if brows != coords:
        res["violations"].append(core.viol("borefield_table_wrong", c1, msg=f"run {len(outs)} on one manager: BoreFieldData.csv lists {len(brows)} boreholes, the design returned {len(coords)}", rerun=True))
    head = list(csv.reader(io.StringIO(files["Gfunction.csv"])))[0]
    if f"H: {h:0.2f} m" not in head[1]:
        res["violations"].append(core.viol("gfunction_table_differs_from_simulated_curve", c1, msg=f"run {len(outs)} on one manager: Gfunction.csv is headed {head[1]!r}, the design's height is {h:0.2f} m", rerun=True))
    js = json.loads(files["SimulationSummary.json"])
    if js["ghe_system"]["number_of_boreholes"] != len(coords):
        res["violations"].append(core.viol("borefield_table_wrong", c1, msg=f"run {len(outs)} on one manager: the summary reports {js['ghe_system']['number_of_boreholes']} boreholes, the design has {len(coords)}", rerun=True, where="summary"))
    physics.cleanup(outdir)
    res.outcome("reruns_on_one_manager")
    res["nontrivial"] += 1
    res["sample"] = dict(case)


def make_loads(kind):
    if kind == "office":
        return LG.atlanta_like()
    if kind == "index":
        return [float((h * 7919) % 10007) - 5000.0 for h in range(8760)]  # all values distinct-ish: order matters
    if kind == "pattern":
        return LG.build_profile([LG.pattern_alphabet()[70]] * 12)
    raise core.HarnessError(kind)


FIELDS = {
    "1": [(0.0, 0.0)],
    "2x2": [(0.0, 0.0), (0.0, 5.0), (5.0, 0.0), (5.0, 5.0)],
    "L": [(0.0, 0.0), (6.0, 0.0), (12.0, 0.0), (0.0, 7.0), (0.0, 14.0)],
    "irregular": [(1.5, 2.25), (9.0, 3.0), (4.0, 11.5), (13.0, 12.0), (7.7, 7.1), (2.0, 17.0)],
    "3x4": [(i * 6.1, j * 4.9) for i in range(3) for j in range(4)],
    "line5": [(i * 5.5, 0.0) for i in range(5)],
}


def main(run: core.Run, only=None):
    quick = run.tier == "quick"
    run.drive([{"kind": "time_convert", "lo": lo, "hi": min(8760, lo + 365)} for lo in range(0, 8760, 365)], family="ghe_time_convert")
    years = 3 if quick else 30
    run.drive([{"kind": "hours_to_month", "years": [y, y + 1]} for y in range(years)], family="hours_to_month")
    cases = []
    fields = ["1", "2x2", "irregular"] if quick else list(FIELDS)
    for f in fields:
        for ld in (["index"] if quick else ["office", "index", "pattern"]):
            for pipe in (["single"] if quick or f not in ("2x2", "irregular") else ["single", "double_parallel", "coaxial"]):
                cases.append({"kind": "tables", "field": f, "coords": [list(c) for c in FIELDS[f]], "loads": ld, "pipe": pipe, "H": 100.0 if f != "L" else 73.0})
    cases.append({"kind": "tables", "field": "2x2", "coords": [list(c) for c in FIELDS["2x2"]], "loads": "index", "pipe": "single", "H": 100.0, "months": 24, "hourly_first": True})
    cases.append({"kind": "tables", "field": "irregular", "coords": [list(c) for c in FIELDS["irregular"]], "loads": "index", "pipe": "single", "H": 90.0, "load_years": [2024]})
    cases.append({"kind": "tables", "field": "1", "coords": [list(c) for c in FIELDS["1"]], "loads": "office", "pipe": "coaxial", "H": 100.0, "months": 36, "hourly_first": True, "load_years": [2020]})
    cases.append({"kind": "tables", "field": "2x2", "coords": [list(c) for c in FIELDS["2x2"]], "loads": "index", "pipe": "single", "H": 100.0, "library_rb": 0.075, "rb": 0.055})
    cases.append({"kind": "tables", "field": "irregular", "coords": [list(c) for c in FIELDS["irregular"]], "loads": "office", "pipe": "coaxial", "H": 90.0, "library_rb": 0.06, "rb": 0.075})
    cases.append({"kind": "tables", "field": "2x2", "coords": [list(c) for c in FIELDS["2x2"]], "loads": "index", "pipe": "single", "H": 100.0, "library_rb": 0.075, "rb": 0.06, "library_heights": [100.0]})
    cases.append({"kind": "tables", "field": "2x2", "coords": [list(c) for c in FIELDS["2x2"]], "loads": "index", "pipe": "single", "H": 100.0,
                  "history": [{"coords": [list(c) for c in FIELDS["irregular"]], "loads": "office"}]})
    cases.append({"kind": "tables", "field": "L", "coords": [list(c) for c in FIELDS["L"]], "loads": "office", "pipe": "single", "H": 73.0,
                  "history": [{"coords": [list(c) for c in FIELDS["1"]], "loads": "index"}, {"coords": [list(c) for c in FIELDS["2x2"]], "loads": "pattern"}]})
    if os.environ.get("VF_C19_NO_HISTORY"):
        cases = [c for c in cases if "history" not in c]  # (used once to exercise the explorer's worker-history replay)
    run.drive(cases, family="tables")
    real = [{"engine": "B", "method": "nearsquare", "pipe": "single", "flow": "borehole", "load": "office"},
            {"engine": "B", "method": "nearsquare", "pipe": "single", "flow": "borehole", "load": "one_borehole", "months": 12},
            {"engine": "B", "method": "rowwise", "pipe": "single", "flow": "borehole", "load": "one_borehole", "months": 12},
            {"engine": "B", "method": "rowwise", "pipe": "coaxial", "flow": "system", "load": "mirror"}]
    if not quick:
        real += [{"engine": "B", "method": mth, "pipe": p, "flow": "borehole", "load": "spiky", "months": 37} for mth, p in
                 (("rectangle", "double_series"), ("birectangle", "single"), ("bizoned", "double_parallel"), ("constrained", "single"))]
    run.drive(real, family="real-runs")
    reruns = [{"kind": "rerun", "method": "nearsquare", "loads": ["office", "mirror"]}]
    if not quick:
        reruns += [{"kind": "rerun", "method": "rectangle", "loads": ["balanced", "office", "spiky"]}, {"kind": "rerun", "method": "rowwise", "loads": ["mirror", "office"]}]
    run.drive(reruns, family="reruns-on-one-manager", chunksize=1)
    return run.finish(
        rule="(a) every hour of the year; (b) every quarter hour of the first 3 (quick) / 30 (thorough) years; (c) row builders on real "
             "GHE objects for field x load list x pipe type; one evaluation = one conversion or one table; non-trivial = first/last "
             "day of a month, month ends, every table",
        bounds={"hours": 8760, "years_for_hours_to_month": years, "fields": fields},
        assumptions=["non-leap calendar (datetime year 2019)", "the curve used in the simulation is captured at BaseGHE._simulate_detailed"],
        require_outcomes=("hours_labelled", "quarter_hours_converted", "tables_built", "real_runs", "reruns_on_one_manager"),
    )
