"""C20 - per-borehole and system flow specifications are equivalent.

arithmetic : for ALL N = 1..400 x flows {0.1,0.3,0.5,1.2} L/s x 4 fluids: every search class's own retrieve_flow (Bisection1D,
             inherited by 2D/ZD, and RowWise's copy), called unbound on a minimal record, for v per borehole and N*v for the system.
objects    : real GHE objects built from both specifications (N thinned, 4 pipe types): per-borehole mass flow, effective borehole
             resistance, simulated temperatures (hand-built monotone g table).
searches   : engine A (real search code over worlds) - every GHE built during a search sees V*rho/(1000 nbh) (system) or V*rho/1000.
"""
from __future__ import annotations

import warnings
from types import SimpleNamespace

from vf import core, ghe_factory, loadgen
from vf import explore_search as X

FLOWS = (0.1, 0.3, 0.5, 1.2)
FLUIDS = (("Water", 0.0), ("PROPYLENEGLYCOL", 20.0), ("ETHYLENEGLYCOL", 30.0), ("METHYLALCOHOL", 20.0))
PIPES = ("single", "double_parallel", "double_series", "coaxial")
HEIGHTS = [60.0, 97.5, 135.0]
_LOADS = None


def init_worker(*a):
    import ghedesigner.search_routines as sr

    warnings.filterwarnings("ignore")
    for cls in ("Bisection1D", "Bisection2D", "BisectionZD", "RowWiseModifiedBisectionSearch"):
        if not hasattr(getattr(sr, cls, None), "retrieve_flow"):
            raise core.HarnessError(f"seam missing: search_routines.{cls}.retrieve_flow")


def run_arith(case, res):
    import ghedesigner.search_routines as sr
    from ghedesigner.enums import FlowConfigType
    from ghedesigner.media import GHEFluid

    fl = GHEFluid(case["fluid"][0], case["fluid"][1])
    rho = fl.rho
    for n in range(case["lo"], case["hi"]):
        coords = [(0.0, 5.0 * j) for j in range(n)]
        for v in FLOWS:
            for cls in (sr.Bisection1D, sr.Bisection2D, sr.BisectionZD, sr.RowWiseModifiedBisectionSearch):
                res["evals"] += 1
                rb = SimpleNamespace(flow_type=FlowConfigType.BOREHOLE, V_flow=v)
                rs = SimpleNamespace(flow_type=FlowConfigType.SYSTEM, V_flow=v * n)
                vs_b, m_b = cls.retrieve_flow(rb, coords, rho)
                vs_s, m_s = cls.retrieve_flow(rs, coords, rho)
                want_m = v * rho / 1000.0
                c1 = {"family": "arith", "fluid": list(case["fluid"]), "lo": n, "hi": n + 1}
                if abs(m_b - want_m) > 1e-12 * want_m or abs(m_s - want_m) > 1e-12 * want_m:
                    res["violations"].append(core.viol("mass_flow_per_borehole_wrong", c1, observed=[m_b, m_s], expected=want_m,
                                                       msg=f"{cls.__name__}.retrieve_flow: N={n}, v={v} L/s: per-borehole mass flow {m_b} (borehole spec) / {m_s} (system spec), expected v*rho/1000 = {want_m}",
                                                       cls=cls.__name__, spec="borehole" if abs(m_b - want_m) > 1e-12 * want_m else "system"))
                if abs(vs_b - v * n) > 1e-12 * v * n or abs(vs_s - v * n) > 1e-12 * v * n:
                    res["violations"].append(core.viol("system_flow_wrong", c1, observed=[vs_b, vs_s], expected=v * n,
                                                       msg=f"{cls.__name__}.retrieve_flow: N={n}, v={v}: system flow {vs_b} / {vs_s}, expected {v * n}", cls=cls.__name__))
                # with a system flow the per-borehole flow falls as 1/N
                rs1 = SimpleNamespace(flow_type=FlowConfigType.SYSTEM, V_flow=v)
                _, m1 = cls.retrieve_flow(rs1, coords, rho)
                if abs(m1 * n - v * rho / 1000.0) > 1e-12 * v * rho / 1000.0:
                    res["violations"].append(core.viol("system_flow_not_split_by_n", c1, observed=m1, msg=f"{cls.__name__}: system flow {v} over {n} boreholes gives {m1} kg/s per borehole", cls=cls.__name__))
            if n > 1:
                res["nontrivial"] += 1
    res.outcome("arith")
    res["sample"] = {"family": "arith", "fluid": list(case["fluid"]), "N": [case["lo"], case["hi"] - 1]}


def run_objects(case, res):
    from ghedesigner.enums import TimestepType

    global _LOADS
    if _LOADS is None:
        _LOADS = loadgen.atlanta_like(0.2)
    n, v, pipe, fluid = case["N"], case["v"], case["pipe"], tuple(case["fluid"])
    coords = [(5.0 * (j % 20), 5.0 * (j // 20)) for j in range(n)]
    b = 5.0 if n > 1 else 0.075
    loads = [x * n for x in _LOADS]
    res["evals"] += 1
    try:
        ga = ghe_factory.make_ghe(coords, pipe=pipe, H=97.5, flow_per_bh=v, fluid=fluid, gfunc=ghe_factory.table_gfunction(coords, b, HEIGHTS, 0.075), loads=loads)
        gb = ghe_factory.make_ghe(coords, pipe=pipe, H=97.5, system_flow=v * n, fluid=fluid, gfunc=ghe_factory.table_gfunction(coords, b, HEIGHTS, 0.075), loads=loads)
    except Exception as e:  # noqa: BLE001
        res["violations"].append(core.viol("ghe_construction_raised", case, msg=f"GHE construction raised {type(e).__name__}: {e}", exc=type(e).__name__))
        return
    want = v * ga.bhe.fluid.rho / 1000.0
    for tag, g in (("per-borehole", ga), ("system", gb)):
        for m in (g.m_flow_borehole, g.bhe.m_flow_borehole):
            if abs(m - want) > 1e-12 * want:
                res["violations"].append(core.viol("mass_flow_per_borehole_wrong", case, observed=m, expected=want, msg=f"GHE built from the {tag} flow: per-borehole mass flow {m}, expected {want}", spec=tag, cls="GHE"))
    ra, rb_ = ga.bhe.calc_effective_borehole_resistance(), gb.bhe.calc_effective_borehole_resistance()
    if abs(ra - rb_) > 1e-12 * abs(ra):
        res["violations"].append(core.viol("borehole_resistance_differs", case, observed=[ra, rb_], msg=f"effective borehole resistance {ra} (per-borehole spec) vs {rb_} (system spec)"))
    if case.get("simulate", True):
        ta = ga.simulate(method=TimestepType.HYBRID)
        tb = gb.simulate(method=TimestepType.HYBRID)
        d = max(abs(float(x) - float(y)) for x, y in zip(ga.hp_eft, gb.hp_eft)) if len(ga.hp_eft) == len(gb.hp_eft) else float("inf")
        if d > 1e-9:
            res["violations"].append(core.viol("temperatures_differ", case, observed=d, msg=f"simulated temperatures differ by up to {d} K between the two flow specifications (max/min {ta} vs {tb})"))
    res.outcome("objects")
    if n > 1:
        res["nontrivial"] += 1
    res["sample"] = dict(case)


def run_shared(case, res):
    """successive candidate fields built on ONE set of media / pipe / borehole objects with one system flow (what a search does):
    every exchanger must carry V/N, whatever was built before it"""
    from ghedesigner.borehole import GHEBorehole
    from ghedesigner.enums import TimestepType

    global _LOADS
    if _LOADS is None:
        _LOADS = loadgen.atlanta_like(0.2)
    pipe, fluid, vsys = case["pipe"], tuple(case["fluid"]), case["v_sys"]
    m = ghe_factory.parts(pipe=pipe, fluid=fluid)
    bh = GHEBorehole(97.5, 2.0, 0.075, x=0.0, y=0.0)
    for k, n in enumerate(case["Ns"]):
        res["evals"] += 1
        c1 = dict(case, Ns=case["Ns"][:k + 1])
        coords = [(5.0 * (j % 20), 5.0 * (j // 20)) for j in range(n)]
        b = 5.0 if n > 1 else 0.075
        loads = [x * n for x in _LOADS]
        g = ghe_factory.make_ghe(coords, pipe=pipe, H=97.5, system_flow=vsys, fluid=fluid, gfunc=ghe_factory.table_gfunction(coords, b, HEIGHTS, 0.075), loads=loads, shared=(m, bh))
        f = ghe_factory.make_ghe(coords, pipe=pipe, H=97.5, system_flow=vsys, fluid=fluid, gfunc=ghe_factory.table_gfunction(coords, b, HEIGHTS, 0.075), loads=loads)
        want = vsys / n * m._fluid.rho / 1000.0
        for mm in (g.m_flow_borehole, g.bhe.m_flow_borehole):
            if abs(mm - want) > 1e-12 * want:
                res["violations"].append(core.viol("mass_flow_per_borehole_wrong", c1, observed=mm, expected=want, msg=f"candidate #{k} ({n} boreholes) on shared media objects, system flow {vsys}: "
                                                   f"per-borehole mass flow {mm}, expected {want}", spec="system-shared", cls="GHE"))
                break
        ra, rb_ = g.bhe.calc_effective_borehole_resistance(), f.bhe.calc_effective_borehole_resistance()
        if abs(ra - rb_) > 1e-12 * abs(rb_):
            res["violations"].append(core.viol("borehole_resistance_differs", c1, observed=[ra, rb_], msg=f"candidate #{k} ({n} boreholes) on shared media objects: R_b* {ra}, a freshly built twin has {rb_}", shared=True))
        if n <= 100:
            g.simulate(method=TimestepType.HYBRID)
            f.simulate(method=TimestepType.HYBRID)
            d = max(abs(float(x) - float(y)) for x, y in zip(g.hp_eft, f.hp_eft)) if len(g.hp_eft) == len(f.hp_eft) else float("inf")
            if d > 1e-9:
                res["violations"].append(core.viol("temperatures_differ", c1, observed=d, msg=f"candidate #{k} ({n} boreholes) on shared media objects: temperatures differ by {d} K from a freshly built twin's", shared=True))
    res.outcome("shared_media_sequences")
    res["nontrivial"] += 1
    res["sample"] = dict(case)


def run_summary(case, res):
    """a real design with each flow specification: the summary states the per-borehole mass flow L/s x density / 1000 (system: / N),
    the same effective borehole resistance as the exchanger, and - with the two specifications describing the same flow per
    borehole - the same field, height and temperatures"""
    import json as _json
    import re

    from vf import physics

    pipe, method = case["pipe"], case["method"]
    v_bh = case["v"]
    m1 = physics.manager(method, pipe=pipe, flow="borehole", load=case["load"], flow_rate=v_bh)
    # other designs with the other flow specification exist in the process (built, not yet run) while this one is searched
    decoy1 = physics.manager("rectangle", pipe="single", flow="system", load="mirror", flow_rate=7.7)  # noqa: F841
    e1 = physics.find(m1)
    res["evals"] += 1
    if e1 is not None:
        res.bump("summary_design_failed")
        return
    n = len(m1._search.ghe.gFunction.bore_locations)
    rho = m1._fluid.rho
    runs = [("per-borehole", m1, v_bh * rho / 1000.0)]
    # the system specification that describes the same flow per borehole for the field just found
    m2 = physics.manager(method, pipe=pipe, flow="system", load=case["load"], flow_rate=v_bh * n)
    decoy2 = physics.manager("rectangle", pipe="single", flow="borehole", load="mirror", flow_rate=0.11)  # noqa: F841
    e2 = physics.find(m2)
    res["evals"] += 1
    if e2 is None:
        n2 = len(m2._search.ghe.gFunction.bore_locations)
        runs.append(("system", m2, v_bh * n / n2 * rho / 1000.0))
    for tag, m, want in runs:
        d, files = physics.write_outputs(m, tag="c20")
        try:
            js = _json.loads(files["SimulationSummary.json"])
            got = js["ghe_system"]["fluid_mass_flow_rate_per_borehole"]["value"]
            if abs(got - want) > 1e-9 * want:
                res["violations"].append(core.viol("summary_mass_flow_per_borehole_wrong", dict(case, spec=tag), observed=got, expected=want,
                                                   msg=f"{method}/{pipe}, {tag} flow: the summary states {got} kg/s per borehole, L/s x density / 1000 is {want}", spec=tag, pipe=pipe, where="json"))
            mt = re.search(r"Mass Flow Rate Per Borehole, kg/s:\s+([-0-9.eE+]+)", files["SimulationSummary.txt"])
            if mt is None or abs(float(mt.group(1)) - want) > 6e-4:
                res["violations"].append(core.viol("summary_mass_flow_per_borehole_wrong", dict(case, spec=tag), observed=mt.group(1) if mt else None, expected=want,
                                                   msg=f"{method}/{pipe}, {tag} flow: the text summary states {mt.group(1) if mt else None} kg/s per borehole, expected {want:.3f}", spec=tag, pipe=pipe, where="txt"))
            rb_sum = js["ghe_system"]["effective_borehole_resistance"]["value"]
            rb_obj = m._search.ghe.bhe.calc_effective_borehole_resistance()
            if abs(rb_sum - rb_obj) > 1e-12 * abs(rb_obj):
                res["violations"].append(core.viol("summary_borehole_resistance_wrong", dict(case, spec=tag), observed=rb_sum, expected=rb_obj, msg=f"{method}/{pipe}, {tag}: summary R_b* {rb_sum}, exchanger {rb_obj}", spec=tag))
        finally:
            physics.cleanup(d)
    if len(runs) == 2 and n2 == n:
        s1, s2 = physics.signature(m1), physics.signature(m2)
        for k in ("coords", "H", "max_eft", "min_eft"):
            a, b = s1[k], s2[k]
            same = a == b if k == "coords" else abs(float.fromhex(a) - float.fromhex(b)) <= 1e-6 * max(1.0, abs(float.fromhex(a)))
            if not same:
                res["violations"].append(core.viol("designs_differ_between_flow_specifications", case, msg=f"{method}/{pipe}: {k} differs between {v_bh} L/s per borehole and {v_bh * n} L/s for the system of {n} boreholes", what=k))
                break
        res.outcome("summary_pairs_same_field")
    res.outcome("summaries")
    res["nontrivial"] += 1
    res["sample"] = dict(case)


def run_case(case):
    res = core.Result(evals=0)
    fam = case.get("family")
    if fam == "summary":
        run_summary(case, res)
        return res
    if fam == "shared":
        run_shared(case, res)
        return res
    if fam == "arith":
        run_arith(case, res)
    elif fam == "objects":
        run_objects(case, res)
    else:
        X.init_worker()
        return X.run_chunk(case, ("C20",))
    return res


def main(run: core.Run, only=None):
    quick = run.tier == "quick"
    ar = [{"family": "arith", "fluid": list(f), "lo": lo, "hi": min(401, lo + 50)} for f in FLUIDS for lo in range(1, 401, 50)]
    run.drive(ar, family="arithmetic")
    ns = [1, 2, 3, 7, 16, 100, 400] if quick else list(range(1, 31)) + list(range(40, 401, 10))
    flows = FLOWS[1:3] if quick else FLOWS
    fluids = FLUIDS[:2] if quick else FLUIDS
    objs = [{"family": "objects", "N": n, "v": v, "pipe": p, "fluid": list(f), "simulate": (n <= 100 or not quick)}
            for n in ns for v in flows for f in fluids for p in PIPES]
    run.drive(objs, family="objects")
    seqs = [[272, 289, 288, 306], [2, 3, 2, 1], [400, 399, 380, 361], [16, 17, 18, 16], [100, 99, 81, 90]]
    shared = [{"family": "shared", "pipe": p, "fluid": list(f), "v_sys": v, "Ns": sq} for p in (PIPES if not quick else PIPES[:1] + PIPES[-1:]) for f in fluids[:1] for v in (31.2, 0.9) for sq in seqs]
    run.drive(shared, family="shared-media-sequences")
    summ = [{"family": "summary", "method": "nearsquare", "pipe": p, "v": 0.3, "load": "office"} for p in (("double_parallel", "single") if quick else PIPES)]
    if not quick:
        summ += [{"family": "summary", "method": mth, "pipe": "double_parallel", "v": 0.35, "load": "mirror"} for mth in ("rectangle", "birectangle", "rowwise")]
    run.drive(summ, family="summaries-of-real-designs", chunksize=1)
    chunks = []
    for method in ("nearsquare", "rectangle"):
        for n in range(1, (33 if not quick else 13)):
            chunks.append({"fam": "A1", "method": method, "n": n, "full": False, "flow": "system" if n % 2 else "borehole"})
    for method in ("birectangle", "bizoned", "constrained"):
        for flow in ("system", "borehole"):
            chunks.append({"fam": "A5", "method": method, "geo": None if method == "constrained" else {"length": 40.0, "width": 25.0, "b_min": 3.0, "b_max_x": 10.0, "b_max_y": 12.0},
                           "full": False, "wv": 0, "flow": flow})
    for method in ("nearsquare", "rectangle"):
        for n in range(1, 5):
            chunks.append({"fam": "A7", "method": method, "n": n})
    # the RowWise search with both flow specifications (its candidates are generated inside the search, field by field)
    rw_geo = {"property_boundary": [[2.0, 3.0], [42.0, 3.0], [42.0, 28.0], [2.0, 28.0]], "no_go_boundaries": [], "min_spacing": 5.0, "max_spacing": 12.0, "spacing_step": 0.5,
              "min_rotation": -90.0, "max_rotation": 0.0, "rotate_step": 30.0, "perimeter_spacing_ratio": None}
    for c0 in range(1, 56, 4 if not quick else 12):
        for flow, rate in (("system", 2.5), ("borehole", 0.5)):
            chunks.append({"fam": "A6", "method": "rowwise", "geo": rw_geo, "nmax": 54, "c0": c0, "cn": 4, "flow": flow, "flow_rate": rate})
    run.drive(chunks, family="searches")
    return run.finish(
        rule="arithmetic: every N in 1..400 x 4 flows x 4 fluids x 4 search classes; objects: real GHE pairs over N x flow x fluid x pipe; "
             "searches: real search code over worlds with system / per-borehole flow; one evaluation = one retrieve_flow pair, one GHE pair "
             "or one complete search; non-trivial = more than one borehole",
        bounds={"N": "1..400 (all) for the arithmetic part", "N_objects": ns, "flows_Lps": flows, "fluids": [f[0] for f in fluids], "pipes": PIPES},
        assumptions=["retrieve_flow only reads flow_type and V_flow of its record (it is called unbound on a minimal record)",
                     "temperatures are compared on a hand-built monotone g-function table, so N = 400 needs no pygfunction run"],
        require_outcomes=("arith", "objects", "shared_media_sequences", "summaries"),
    )
