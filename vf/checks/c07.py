"""C07 - hybrid loads retain each month's peaks with positive, bounded durations, placed at noon, Cullin-Spitler duration.

Alphabet : the C06 pattern alphabet (P0: same pattern all year; P1 subset: one deviating month) x borehole/ground
           parameter sets (H x k_s x rho*c_s x grout k) x horizons {12, 37}.
Oracle   : (i) pulses present with exact magnitude and sign in retention months, single average segment elsewhere, no pulse
           for a direction without load; (ii) 0 < duration <= 48 h; (iii) pulse length = reported duration, centred on noon
           (hour-label convention: noon or noon+1 h) of the input profile's own first-peak day, abutting at that instant when
           both peaks share the day; (iv) duration recomputed by an independent superposition
           (vf/oracles/superposition.py) from the tool's short-time response, R_b* and k_s.
"""
from __future__ import annotations

from vf import core, hybrid, loadgen as LG
from vf.checks import c06
from vf.oracles import superposition as SP

PARAMS_FULL = [dict(H=H, k_s=k, rhocp_s=rc, k_g=kg) for H in (60.0, 135.0, 300.0) for k in (1.2, 2.0, 3.5)
               for rc in (1.8e6, 2.3e6, 3.0e6) for kg in (0.8, 2.0)]
PARAMS_QUICK = [dict(H=60.0, k_s=1.2, rhocp_s=1.8e6, k_g=0.8), dict(H=135.0, k_s=2.0, rhocp_s=2.3e6, k_g=2.0),
                dict(H=300.0, k_s=3.5, rhocp_s=3.0e6, k_g=0.8), dict(H=135.0, k_s=3.5, rhocp_s=1.8e6, k_g=2.0)]


def init_worker():
    c06.init_worker()


def two_day_window(series, m0, day, dim=None):
    """48 hourly values: the day before the peak day and the peak day (wrapping Dec 31 before Jan 1)"""
    s = LG.month_start_hour(m0, dim) + 24 * (day - 1)
    n = len(series)
    return [series[(s + h) % n] for h in range(48)]


def check_one(case, res):
    loads = c06.profile_of({k: v for k, v in case.items() if k != "year"})
    year = case.get("year", 2019)
    dim = LG.DAYS_IN_MONTH_LEAP if year % 4 == 0 else None
    if dim:
        loads = c06.leapify(loads)  # a leap load year: 8784 hourly values
    ref = LG.monthly_reference(loads, dim)
    rej = [(-x / 1000.0) if x < 0 else 0.0 for x in loads]
    ext = [(x / 1000.0) if x >= 0 else 0.0 for x in loads]
    params = case["params"]
    sm0 = case.get("start", 1)
    for n_sim in case["horizons"]:
        n_months = sm0 - 1 + n_sim  # the tool's end_month (months are counted from the start of the year)
        res["evals"] += 1
        c1 = dict(case, horizons=[n_sim])
        try:
            hl = hybrid.make_hybrid(loads, n_sim, params, start_month=sm0, years=[year])
        except Exception as e:  # noqa: BLE001
            res["violations"].append(core.viol("hybrid_load_raised", c1, msg=f"HybridLoad raised {type(e).__name__}: {e}", exc=type(e).__name__))
            continue
        bhe, rn = hybrid.bhe_and_radial(params)
        hour = [float(h) for h in hl.hour]
        load = [float(x) for x in hl.load]
        ends = LG.month_end_hours(n_months, dim)

        def v(kind, msg, **attrs):
            res["violations"].append(core.viol(kind, c1, msg=f"horizon {n_months}: {msg}", **attrs))

        # (ii) durations
        for i in range(1, 13):
            for name, arr in (("cooling", hl.monthly_peak_cl_duration), ("heating", hl.monthly_peak_hl_duration)):
                d = float(arr[i])
                if not (0.0 < d <= 48.0 + 1e-9):
                    v("duration_out_of_range", f"{name} peak duration of month {i} is {d} h", direction=name)
        # (iv) durations against the independent recomputation
        rb = bhe.calc_effective_borehole_resistance()
        for i in range(1, 13):
            r = ref[i - 1]
            for name, series, peak, tot, day, arr in (
                ("cooling", rej, r["peak_rej"], r["rej_kwh"], r["day_rej"], hl.monthly_peak_cl_duration),
                ("heating", ext, r["peak_ext"], r["ext_kwh"], r["day_ext"], hl.monthly_peak_hl_duration),
            ):
                d = float(arr[i])
                if peak == 0.0:
                    if d != 1.0e-6:
                        v("duration_for_direction_without_load", f"month {i} has no {name} load but a {name} peak duration of {d} h", direction=name)
                    continue
                win = two_day_window(series, i - 1, day, dim)
                if max(win) > peak + 0.1:
                    res.bump("previous_month_higher_skipped")
                    continue
                if abs(max(win) - peak) >= 0.1:
                    res.bump("previous_month_higher_skipped")
                    continue
                avg = tot / r["hours"]
                want = SP.cullin_spitler_duration(win, peak, avg, rn.g_sts, rn.t_s, bhe.soil.k, rb)
                res.bump("durations_recomputed")
                if abs(want - d) > 1e-6 * max(1.0, abs(want)):
                    v("duration_not_cullin_spitler", f"{name} peak duration of month {i}: tool {d!r} h, independent recomputation {want!r} h",
                      direction=name, observed=d, expected=want)
        # (i)+(iii) segments month by month
        try:
            _en, pos = hybrid.month_energies(hl, n_months, ends, first=sm0 - 1)
        except LookupError as e:
            v("no_month_end_breakpoint", f"no breakpoint at the end of simulated month {e.args[0]}")
            continue
        prev = 1
        for kpos, m in enumerate(range(sm0 - 1, n_months)):
            i = m + 1
            r = ref[m % 12]
            start = ends[m] - r["hours"]
            segs = [(hour[j - 1], hour[j], load[j]) for j in range(prev + 1, pos[kpos] + 1)]
            prev = pos[kpos]
            retained = i < sm0 + 12 or i > n_months - 12
            dirs = [(+1, r["peak_rej"], r["day_rej"], float(hl.monthly_peak_cl_duration[((i - 1) % 12) + 1]), "cooling"),
                    (-1, r["peak_ext"], r["day_ext"], float(hl.monthly_peak_hl_duration[((i - 1) % 12) + 1]), "heating")]
            active = [d for d in dirs if d[1] > 0]
            if not retained:
                res.bump("months_without_peaks")
                if len(segs) != 1:
                    v("peak_in_non_retention_month", f"simulated month {i} is outside the first/last twelve months but has {len(segs)} segments", n_segments=len(segs))
                continue
            res.bump("months_with_peaks")
            same_day = len(active) == 2 and r["day_rej"] == r["day_ext"]
            exp_n = 4 if same_day else 1 + 2 * len(active)
            if len(segs) != exp_n:
                v("wrong_number_of_segments", f"simulated month {i}: {len(segs)} segments, expected {exp_n} "
                  f"({'no' if not active else ' and '.join(a[4] for a in active)} peak{'s on the same day' if same_day else ''})",
                  n_active=len(active), same_day=same_day)
                continue
            # the pulses in emission order
            order = sorted(active, key=lambda a: (a[2], -a[0])) if not same_day else [dirs[0], dirs[1]]
            idxs = [1, 2] if same_day else [1 + 2 * k for k in range(len(order))]
            for (sign, peak, day, dur, name), k in zip(order, idxs):
                s0, s1, val = segs[k]
                if val != sign * peak:
                    v("peak_magnitude_or_sign_wrong", f"simulated month {i}: {name} pulse carries {val} kW, the month's hourly peak is {sign * peak} kW",
                      direction=name, observed=val, expected=sign * peak)
                    continue
                noon = start + 24 * day + 12
                # a pulse that would start before time zero is clamped by the tool (and, when both peaks share the day,
                # drags the other pulse with it): excluded and counted here, C06 reports the energy consequence
                before_zero = any(m == 0 and a[2] == 0 and (13 - (a[3] if same_day else a[3] / 2)) < 0 for a in (active if same_day else [(sign, peak, day, dur, name)]))
                if before_zero:
                    res["excluded"] += 1
                    continue
                if abs((s1 - s0) - dur) > 1e-9 * max(1.0, dur):
                    v("pulse_length_differs_from_duration", f"simulated month {i}: {name} pulse lasts {s1 - s0} h, reported duration {dur} h",
                      direction=name, same_day=same_day)
                    continue
                if same_day:
                    anchor = s1 if sign > 0 else s0
                    if min(abs(anchor - noon), abs(anchor - noon - 1)) > 1e-9 * max(1.0, anchor):
                        v("pulse_not_at_noon", f"simulated month {i}: same-day {name} pulse {'ends' if sign > 0 else 'starts'} at hour {anchor - start} of the month, noon of the peak day is {noon - start}",
                          direction=name, same_day=True)
                else:
                    c = 0.5 * (s0 + s1)
                    if min(abs(c - noon), abs(c - noon - 1)) > 1e-9 * max(1.0, c):
                        v("pulse_not_at_noon", f"simulated month {i}: {name} pulse centred at hour {c - start} of the month, noon of the peak day {day} is {noon - start}",
                          direction=name, same_day=False)
        dirs_seen = {("b" if r["peak_rej"] > 0 and r["peak_ext"] > 0 else "c" if r["peak_rej"] > 0 else "h" if r["peak_ext"] > 0 else "n") for r in ref}
        for d in dirs_seen:
            res.outcome({"b": "months_both", "c": "months_cooling_only", "h": "months_heating_only", "n": "months_no_load"}[d])
    res["nontrivial"] += 1


def run_case(case):
    res = core.Result(evals=0)
    if "years_sequence" in case:
        # load years handled one after the other in one process (a study over weather years): each is checked like a single year
        base = {k: v for k, v in case.items() if k != "years_sequence"}
        for k, y in enumerate(case["years_sequence"]):
            before = len(res["violations"])
            check_one(dict(base, year=y), res)
            for vv in res["violations"][before:]:
                vv["case"] = dict(case, years_sequence=case["years_sequence"][:k + 1], horizons=vv["case"].get("horizons", case["horizons"]))
                vv["attrs"]["after_other_years"] = k > 0
        res.outcome("year_sequences")
        res["sample"] = dict(case)
        return res
    if "profile" in case:
        check_one(case, res)
        return res
    A = LG.pattern_alphabet()
    for p in A[case["lo"]:case["hi"]]:
        if case["kind"] == "P0":
            pats = [p] * 12
        else:
            pats = [A[case["base"]]] * 12
            pats[case["month"]] = p
        c = {"profile": "patterns", "patterns": pats, "params": case["params"], "horizons": case["horizons"]}
        check_one(c, res)
        if res["sample"] is None:
            res["sample"] = c
    return res


def main(run: core.Run, only=None):
    quick = run.tier == "quick"
    params = PARAMS_QUICK if quick else PARAMS_FULL
    nA = len(LG.pattern_alphabet())
    cases = []
    step = 16
    for k, p in enumerate(params):
        for lo in range(0, nA, step):
            cases.append({"kind": "P0", "lo": lo, "hi": min(nA, lo + step), "params": p, "horizons": [12] if k else [12, 37]})
    run.drive(cases, family="P0")
    cases = []
    for p in params[:2] if quick else params[::9]:
        for month in (0, 1, 5, 11):
            for lo in range(0, nA, step * 2):
                cases.append({"kind": "P1", "base": c06.BASES[2], "month": month, "lo": lo, "hi": min(nA, lo + step * 2), "params": p, "horizons": [25]})
    run.drive(cases, family="P1")
    # simulations that do not start in January (SimulationParameters.start_month > 1, reachable through the GHE / design classes)
    A = LG.pattern_alphabet()
    sm = []
    for st in (4, 10):
        for pi in (8, 38, 70, 100, 130) if quick else range(1, nA, 9):
            sm.append({"profile": "patterns", "patterns": [A[pi]] * 12, "params": params[0], "horizons": [12, 30], "start": st})
        sm.append({"profile": "office", "params": params[1], "horizons": [24, 37], "start": st})
    run.drive(sm, family="start-month")
    # a leap load year (366 days, 8784 hourly values) given to HybridLoad directly
    ly = [{"profile": "patterns", "patterns": [A[pi]] * 12, "params": params[0], "horizons": [12, 25], "year": 2020} for pi in ((8, 38, 70, 100, 130, 160) if quick else range(1, nA, 7))]
    ly.append({"profile": "office", "params": params[1], "horizons": [12, 37], "year": 2024})
    ly += [{"profile": "patterns", "patterns": [A[pi]] * 12, "params": params[0], "horizons": [12, 25], "years_sequence": seq} for pi in (38, 130) for seq in ([2019, 2020, 2019], [2024, 2019])]
    run.drive(ly, family="leap-year")
    # peaks in the first and in the last hour of a day (night-time charging, late-evening peaks)
    ph = []
    for hod in (23, 0):
        for d in ("first", "mid", "last"):
            for shape in ("1h", "6h") if not quick or d != "mid" else ("1h",):
                ph.append({"dir": "c", "cday": d, "shape": shape, "base": 0.2, "pc": 6.0, "ph": 5.0, "ch": hod})
                ph.append({"dir": "h", "hday": d, "shape": shape, "base": 0.2, "pc": 6.0, "ph": 5.0, "hh": hod})
                ph.append({"dir": "both", "cday": d, "hday": "second" if d != "mid" else "penult", "shape": shape, "base": 0.0, "pc": 6.0, "ph": 5.0, "ch": hod, "hh": 23 - hod})
    run.drive([{"profile": "patterns", "patterns": [p] * 12, "params": params[0], "horizons": [12, 25]} for p in ph], family="peak-in-first-or-last-hour-of-a-day")
    # small plants: every monthly peak below 0.1 kW (a single shallow test borehole, loads scaled down for a linearity check)
    small = [dict(A[pi], pc=0.06, ph=0.05) for pi in ((8, 38, 70, 100, 130, 160) if quick else range(1, nA, 7))]
    run.drive([{"profile": "patterns", "patterns": [p] * 12, "params": params[0], "horizons": [12, 25]} for p in small], family="peaks-below-100-W")
    misc = [{"profile": k, "params": p, "horizons": [12, 37]} for p in params[:3] for k in ("office", "mirror")]
    misc += [{"profile": "const", "value": val, "params": params[0], "horizons": [12, 37]} for val in (5000.0, -5000.0, 0.0)]
    run.drive(misc, family="misc")
    return run.finish(
        rule="C06 pattern alphabet (P0 complete, P1 = one deviating month in {Jan,Feb,Jun,Dec}) x borehole/ground parameter sets x "
             "horizons; one evaluation = one HybridLoad checked month by month for pulses, durations, placement and the "
             "independently recomputed Cullin-Spitler duration; non-trivial = every profile (all are pattern-built or smooth)",
        bounds={"parameter_sets": len(params), "pattern_alphabet": nA, "horizons": [12, 25, 37]},
        assumptions=["hour-label convention: a pulse centred on noon or noon+1 h of the peak day is accepted",
                     "peak day = first occurrence of the month's hourly maximum in the input profile",
                     "months whose 48 h window contains a higher load from the previous month (the tool's documented escape) are "
                     "counted and skipped for the duration recomputation; pulses that would start before time zero are excluded and counted",
                     "the short-time response g_sts, R_b* and k_s are taken from the tool (C10/C15 check those)"],
        require_outcomes=("months_both", "months_cooling_only", "months_heating_only"),
    )
