"""C02 via engine A (see vf/explore_search.py and vf/checks/_search.py)."""
from vf.checks import _search

REPLAY_INIT_ARGS = ("C02",)
init_worker = _search.init_worker
run_case = _search.run_case


def main(run, only=None):
    return _search.main_for("C02", run, "Oracle for C02: see DESIGN.md section 4.", require=("design", "ValueError") if not only else (), only=only)
