"""C13 - results are deterministic and independent of call history (engine E: history explorer).

config   : breadth-first search over the setter calls of GHEManager; abstract state = last value given to each of nine setters
           (unset / value A / value B), 3^9 states; every transition calls the REAL setter on a copy of a real manager; invariant: the
           manager's structural state depends only on the abstract state (not on the path).
designs  : real physics on a small lot: every valid history of length <= 4 (quick 3) over {D set_design, F find_design, Bh
           set_borehole(other nominal height), X1 unrelated design on another manager, X2 same geometry with another grout, R rebuild the
           manager}; every F must give the bit-identical signature (field, height, temperatures, search log, output files).
objects  : one real GHE (3x3 field): every sequence of length <= 3 over {simulate hybrid at 65 / 80 / 120 m, simulate hourly at 80 m,
           size}; the last call must equal the same call on a fresh object, bit for bit.
"""
from __future__ import annotations

import copy
import itertools
import warnings
from collections import deque

from vf import core, ghe_factory, physics, scenarios

# ------------------------------------------------------------------------------------------------ config confluence
SETTERS = ("fluid", "grout", "soil", "pipe", "borehole", "sim", "loads", "geometry", "pipe_type")
VALS = {
    "fluid": [dict(fluid_name="Water", concentration_percent=0.0), dict(fluid_name="PROPYLENEGLYCOL", concentration_percent=30.0)],
    "grout": [dict(conductivity=1.0, rho_cp=3901000.0), dict(conductivity=2.2, rho_cp=3.0e6)],
    "soil": [dict(conductivity=2.0, rho_cp=2343493.0, undisturbed_temp=18.3), dict(conductivity=3.1, rho_cp=2.0e6, undisturbed_temp=11.0)],
    "borehole": [dict(height=96.0, buried_depth=2.0, diameter=0.15), dict(height=50.0, buried_depth=4.0, diameter=0.11)],
    "sim": [dict(num_months=24, max_eft=35.0, min_eft=5.0, max_height=135.0, min_height=60.0, max_boreholes=12, continue_if_design_unmet=True),
            dict(num_months=36, max_eft=30.0, min_eft=2.0, max_height=100.0, min_height=80.0)],
    "loads": [[1000.0] * 24, [-500.0] * 24],
}


def apply_setter(m, name, which, pipe, method):
    if name == "pipe":
        base = dict(scenarios.COAX) if pipe == "coaxial" else dict(scenarios.SINGLE_U)
        if which == 1:
            base["roughness"] = 2.0e-6
            base["rho_cp"] = 1.6e6
        {"single": m.set_single_u_tube_pipe, "double_parallel": m.set_double_u_tube_pipe_parallel, "double_series": m.set_double_u_tube_pipe_series,
         "coaxial": m.set_coaxial_pipe}[pipe](**base)
    elif name == "pipe_type":
        m.set_pipe_type({"single": "SINGLEUTUBE", "double_parallel": "DOUBLEUTUBEPARALLEL", "double_series": "DOUBLEUTUBESERIES", "coaxial": "COAXIAL"}[pipe] if which == 0 else
                        {"single": "singleutube", "double_parallel": "DoubleUTubeParallel", "double_series": "doubleutubeseries", "coaxial": "Coaxial"}[pipe])
    elif name == "geometry":
        geo = None if which == 0 else ({"b": 6.0, "length": 33.0} if method == "nearsquare" else
                                       {"length": 36.5, "width": 85.0, "b_min": 4.0, "b_max": 9.0, "b_max_x": 9.0, "b_max_y": 11.0, "perimeter_spacing_ratio": 0.8,
                                        "max_spacing": 11.0, "min_spacing": 6.0})
        if method == "constrained" and which == 1:
            geo = {"b_min": 4.0, "b_max_x": 9.0, "b_max_y": 11.0}
        scenarios.set_geometry(m, method, geo)
    elif name == "fluid":
        m.set_fluid(**VALS["fluid"][which])
    elif name == "grout":
        m.set_grout(**VALS["grout"][which])
    elif name == "soil":
        m.set_soil(**VALS["soil"][which])
    elif name == "borehole":
        m.set_borehole(**VALS["borehole"][which])
    elif name == "sim":
        m.set_simulation_parameters(**VALS["sim"][which])
    elif name == "loads":
        m.set_ground_loads_from_hourly_list(list(VALS["loads"][which]))


def mstate(m):
    """structural state of a manager (content, not identity)"""
    def comp(o, keys):
        return None if o is None else [getattr(o, k, None) for k in keys]

    p = m._pipe
    sp = m._simulation_parameters
    gc = m._geometric_constraints
    return core.canon({
        "fluid": None if m._fluid is None else [m._fluid.fluid_type.name, m._fluid.concentration_percent, m._fluid.temperature, m._fluid.rho, m._fluid.cp],
        "grout": comp(m._grout, ("k", "rhoCp")), "soil": comp(m._soil, ("k", "rhoCp", "ugt")),
        "pipe": None if p is None else [p.r_in, p.r_out, p.s, p.roughness, p.k, p.rhoCp, str(p.pos), p.n_pipes],
        "pipe_type": None if m.pipe_type is None else m.pipe_type.name,
        "borehole": comp(m._borehole, ("H", "D", "r_b")),
        "sim": None if sp is None else [sp.start_month, sp.end_month, sp.max_EFT_allowable, sp.min_EFT_allowable, sp.max_height, sp.min_height, sp.max_boreholes, sp.continue_if_design_unmet],
        "loads": None if m._ground_loads is None else list(m._ground_loads),
        "geo": None if gc is None else {k: (v.name if hasattr(v, "name") else v) for k, v in vars(gc).items()},
        "geom_type": None if m.geom_type is None else m.geom_type.name,
    })


def run_config_bfs(case, res):
    from ghedesigner.manager import GHEManager

    pipe, method = case["pipe"], case["method"]
    nvals = case.get("nvals", 2)
    setters = case.get("setters") or list(SETTERS)
    start = tuple([0] * len(setters))
    reps = {start: (GHEManager(), [])}
    states = {start: mstate(reps[start][0])}
    frontier = deque([start])
    ntrans = 0
    while frontier:
        s = frontier.popleft()
        m, hist = reps[s]
        for i, name in enumerate(setters):
            for w in range(nvals):
                t = list(s)
                t[i] = w + 1
                t = tuple(t)
                m2 = copy.deepcopy(m)
                try:
                    apply_setter(m2, name, w, pipe, method)
                except Exception as e:  # noqa: BLE001
                    res["violations"].append(core.viol("setter_raised", dict(case, history=hist + [[name, w]]), msg=f"setter {name}[{w}] raised {type(e).__name__}: {e} after {hist}", setter=name))
                    continue
                ntrans += 1
                st = mstate(m2)
                # the pipe setter also decides pipe_type: abstract it (both set it to the same consistent type)
                if t in states:
                    if states[t] != st:
                        res["violations"].append(core.viol("state_depends_on_setter_order", dict(case, history=hist + [[name, w]], other=reps[t][1]),
                                                           msg=f"manager state after {hist + [[name, w]]} differs from the state after {reps[t][1]} although the same values were given last to every setter",
                                                           setter=name))
                        return ntrans, len(states)
                else:
                    states[t] = st
                    reps[t] = (m2, hist + [[name, w]])
                    frontier.append(t)
        if s != start:
            reps[s] = (None, reps[s][1])  # free memory
    res["states"] = [core.h64([case["pipe"], case["method"], list(k)]) for k in states]
    res["transitions"] = [(core.h64([case["pipe"], case["method"], i]), core.h64([case["pipe"], case["method"], i + 1])) for i in range(min(ntrans, 5000))]
    res.bump("config_states", len(states))
    res.bump("config_transitions", ntrans)
    res["evals"] += ntrans
    res["nontrivial"] += 1
    res.outcome("config_bfs")
    res["sample"] = {"family": "config", "pipe": pipe, "method": method, "states": len(states), "transitions": ntrans}
    return ntrans, len(states)


# ------------------------------------------------------------------------------------------------ design histories
ALPHA = ("D", "F", "Bh", "X1", "X2", "R")


def valid_history(h):
    """D before the first F; after R a D is needed before the next F; ends with F"""
    if h[-1] != "F":
        return False
    designed = False
    for a in h:
        if a == "D":
            designed = True
        elif a == "R":
            designed = False
        elif a == "F" and not designed:
            return False
    # drop histories where nothing happens between consecutive D's etc.? keep all: the space is small
    return True


def histories(max_len):
    out = []
    for n in range(2, max_len + 1):
        for h in itertools.product(ALPHA, repeat=n):
            if valid_history(h):
                out.append(list(h))
    return out


def fresh(cfg):
    kw = {}
    for k in ("borehole", "soil", "grout"):
        if cfg.get(k):
            kw[k] = tuple(cfg[k])
    for k in ("max_eft", "min_eft"):
        if cfg.get(k) is not None:
            kw[k] = cfg[k]
    return physics.manager(cfg["method"], pipe=cfg["pipe"], flow=cfg.get("flow", "borehole"), load=cfg.get("load", "office"), months=cfg.get("months", 24), do_set_design=False, **kw)


# inputs changed between two designs on ONE manager (a parameter study): name -> (override of the configuration, setter call)
CHANGES = {
    "borehole": ({"borehole": [96.0, 4.0, 0.110]}, lambda m: m.set_borehole(height=96.0, buried_depth=4.0, diameter=0.110)),
    "soil": ({"soil": [3.1, 2100000.0, 15.5]}, lambda m: m.set_soil(conductivity=3.1, rho_cp=2100000.0, undisturbed_temp=15.5)),
    "grout": ({"grout": [2.2, 3500000.0]}, lambda m: m.set_grout(conductivity=2.2, rho_cp=3500000.0)),
    "loads": ({"load": "balanced"}, lambda m: m.set_ground_loads_from_hourly_list(list(physics.loads("balanced")))),
    "limits": ({"max_eft": 32.0, "min_eft": 6.5}, lambda m: m.set_simulation_parameters(num_months=24, max_eft=32.0, min_eft=6.5, max_height=135.0, min_height=60.0)),
    "to_nearsquare": ({"method": "nearsquare"}, lambda m: scenarios.set_geometry(m, "nearsquare")),
    "to_bizoned": ({"method": "bizoned"}, lambda m: scenarios.set_geometry(m, "bizoned")),
    "horizon": ({"months": 36}, lambda m: m.set_simulation_parameters(num_months=36, max_eft=35.0, min_eft=5.0, max_height=135.0, min_height=60.0)),
}


def run_study(case, res):
    """one manager: design, change one input through its setter, design again; the second design is bit for bit the design a brand-new
    interpreter finds for the final configuration"""
    cfg, what = case["cfg"], case["change"]
    override, setter = CHANGES[what]
    final = dict(cfg, **override)
    ref = case.get("ref") or reference_in_fresh_process(final)
    res["ref"] = ref
    m = fresh(cfg)
    set_design(m, cfg)
    if case.get("first_run", True):
        res["evals"] += 1
        physics.find(m)
    setter(m)
    set_design(m, final)
    res["evals"] += 1
    e = physics.find(m)
    if e is not None:
        res["violations"].append(core.viol("design_failed_after_history", case, msg=f"{cfg['method']}/{cfg['pipe']}: after changing {what} on a used manager find_design raised {type(e).__name__}: {e}", action=what))
    else:
        try:
            sig = full_signature(m)
        except Exception as ex:  # noqa: BLE001  (e.g. a field handed back without temperatures)
            g_ = m._search.ghe
            sig = {"nbh": len(g_.gFunction.bore_locations), "H": physics.fhex(g_.bhe.b.H), "max_eft": "none", "min_eft": "none", "unreadable": f"{type(ex).__name__}: {ex}"}
        if sig != ref:
            diff = [key for key in ref if sig.get(key) != ref[key]]
            res["violations"].append(core.viol("design_depends_on_history", case, observed={k2: sig[k2] for k2 in ("nbh", "H", "max_eft", "min_eft")},
                                               expected={k2: ref[k2] for k2 in ("nbh", "H", "max_eft", "min_eft")},
                                               msg=f"{cfg['method']}/{cfg['pipe']}: design, change {what}, design again on one manager: the second design differs from a fresh manager's with the final inputs in {diff} "
                                                   f"(H {float.fromhex(sig['H'])} vs {float.fromhex(ref['H'])}, nbh {sig['nbh']} vs {ref['nbh']})",
                                               differs_in=diff[0] if diff else "?", preceded_by=[what]))
    res.outcome("input_change_studies")
    res["nontrivial"] += 1
    res["sample"] = {k: v for k, v in case.items() if k != "ref"}


def set_design(m, cfg):
    fr = 0.3 if cfg.get("flow", "borehole") == "borehole" else 4.0
    m.set_design(flow_rate=fr, flow_type_str=cfg.get("flow", "borehole"))


def full_signature(m):
    sig = physics.signature(m)
    d, files = physics.write_outputs(m)
    physics.cleanup(d)
    st = physics.stable_outputs(files)
    sig["files"] = {k: core.h64(v) for k, v in st.items() if k != "SimulationSummary.txt"}
    return sig


def other_design(cfg, kind):
    if kind == "X1":
        om = "rectangle" if cfg["method"] != "rectangle" else "nearsquare"
        op = "coaxial" if cfg["pipe"] != "coaxial" else "single"
        m = physics.manager(om, pipe=op, load="mirror", months=12)
    else:
        m = physics.manager(cfg["method"], pipe=cfg["pipe"], flow=cfg.get("flow", "borehole"), load=cfg.get("load", "office"), months=24, grout=(2.4, 3901000.0))
    physics.find(m)


def run_history(cfg, h, ref, res, case):
    m = fresh(cfg)
    for k, a in enumerate(h):
        if a == "D":
            set_design(m, cfg)
        elif a == "Bh":
            m.set_borehole(height=50.0, buried_depth=2.0, diameter=0.150)
        elif a in ("X1", "X2"):
            other_design(cfg, a)
        elif a == "R":
            m = fresh(cfg)
        elif a == "F":
            res["evals"] += 1
            e = physics.find(m)
            c1 = {"family": "designs", "cfg": cfg, "histories": [h]}
            if e is not None:
                res["violations"].append(core.viol("design_failed_after_history", c1, msg=f"{cfg['method']}/{cfg['pipe']}: find_design raised {type(e).__name__}: {e} at step {k} of history {h}", action="F"))
                return
            sig = full_signature(m)
            if sig != ref:
                diff = [key for key in ref if sig.get(key) != ref[key]]
                res["violations"].append(core.viol("design_depends_on_history", c1, observed={k2: sig[k2] for k2 in ("nbh", "H", "max_eft", "min_eft")},
                                                   expected={k2: ref[k2] for k2 in ("nbh", "H", "max_eft", "min_eft")},
                                                   msg=f"{cfg['method']}/{cfg['pipe']}: history {h[:k + 1]} gives a design that differs from the fresh 'D F' run in {diff} "
                                                       f"(H {float.fromhex(sig['H'])} vs {float.fromhex(ref['H'])}, nbh {sig['nbh']} vs {ref['nbh']})",
                                                   differs_in=diff[0] if diff else "?", preceded_by=sorted(set(h[:k]) - {"D"})))
                return


def reference_in_fresh_process(cfg):
    """the plain run in a brand-new interpreter: nothing that ran earlier in any process can have touched it"""
    import json
    import subprocess
    import sys

    p = subprocess.run([sys.executable, "-m", "vf.refsig", json.dumps(cfg)], capture_output=True, text=True, timeout=3600)
    for ln in p.stdout.splitlines():
        if ln.startswith("REFSIG "):
            return json.loads(ln[7:])
    raise core.HarnessError(f"reference run failed for {cfg}: {p.stdout[-300:]} {p.stderr[-300:]}")


def run_designs(case, res):
    cfg = case["cfg"]
    if case.get("reference_only"):
        res["ref"] = reference_in_fresh_process(cfg)
        res["evals"] += 1
        res.outcome("reference_runs")
        return
    ref = case.get("ref") or reference_in_fresh_process(cfg)
    res["ref"] = ref
    for h in case["histories"]:
        run_history(cfg, h, ref, res, case)
        res["nontrivial"] += 1
    res.outcome("design_histories", len(case["histories"]))
    res["sample"] = {"family": "designs", "cfg": cfg, "histories": case["histories"][:3]}


# ------------------------------------------------------------------------------------------------ object histories
OBJ_ACTIONS = ("hyb65", "hyb80", "hyb120", "hour80", "size")


def new_ghe():
    coords = [(i * 6.0, j * 6.0) for i in range(3) for j in range(3)]
    from vf import loadgen

    return ghe_factory.make_ghe(coords, pipe="single", H=100.0, loads=[x * 1.7 for x in loadgen.atlanta_like(0.6)], months=12, hvals=[60.0, 97.5, 135.0])  # sized inside the window (about 110 m)


def new_ghe_one_curve():
    """a GHE whose long-time family holds ONE curve, computed for another borehole radius than the one simulated"""
    from vf import loadgen

    coords = [(i * 6.0, j * 6.0) for i in range(2) for j in range(2)]
    gf = ghe_factory.table_gfunction(coords, 6.0, [100.0], 0.070)
    return ghe_factory.make_ghe(coords, pipe="single", H=100.0, loads=[x * 1.0 for x in loadgen.atlanta_like(0.6)], months=12, gfunc=gf, rb=0.075)


def new_ghe_library():
    """a GHE whose long-time family was taken from a library of other heights (48 / 96 / 192 m) than the sizing window's (60 / 97.5 / 135 m)"""
    from vf import loadgen

    coords = [(i * 6.0, j * 6.0) for i in range(2) for j in range(2)]
    return ghe_factory.make_ghe(coords, pipe="single", H=100.0, loads=[x * 1.0 for x in loadgen.atlanta_like(0.6)], months=12, hvals=[48.0, 96.0, 192.0])


CONFIG_ACTIONS = ("m12", "m24", "cg")


def do_action(ghe, a):
    from ghedesigner.enums import TimestepType

    if a == "cg":
        ghe.compute_g_functions()  # the family is recomputed for the sizing window (what the manager does after a search)
        return ["recomputed", sorted(float(h) for h in ghe.gFunction.g_lts)]

    if a in ("m12", "m24"):
        ghe.sim_params.end_month = int(a[1:])
        return ["months", int(a[1:])]
    if a == "hybP":
        r = ghe.simulate(method=TimestepType.HYBRID)
        return [physics.fhex(r[0]), physics.fhex(r[1]), len(ghe.hp_eft)]
    if a == "hourP":
        r = ghe.simulate(method=TimestepType.HOURLY)
        return [physics.fhex(r[0]), physics.fhex(r[1]), len(ghe.hp_eft)]

    if a.startswith("hyb"):
        ghe.bhe.b.H = float(a[3:])
        r = ghe.simulate(method=TimestepType.HYBRID)
        return [physics.fhex(r[0]), physics.fhex(r[1]), len(ghe.hp_eft)]
    if a.startswith("hour"):
        ghe.bhe.b.H = float(a[4:])
        r = ghe.simulate(method=TimestepType.HOURLY)
        return [physics.fhex(r[0]), physics.fhex(r[1]), len(ghe.hp_eft)]
    ghe.size(method=TimestepType.HYBRID)
    return [physics.fhex(ghe.bhe.b.H), physics.fhex(max(ghe.hp_eft)), physics.fhex(min(ghe.hp_eft))]


_PROTO = {}


def run_objects(case, res):
    pname = case.get("proto", "multi")
    if pname not in _PROTO:
        _PROTO[pname] = new_ghe() if pname == "multi" else new_ghe_library() if pname == "library" else new_ghe_one_curve()
        _PROTO[pname + "/fresh"] = {}
    proto = _PROTO[pname]
    freshd = _PROTO[pname + "/fresh"]
    for seq in case["seqs"]:
        last = seq[-1]
        # the configuration in force at the last call (months), so that the fresh object is configured alike
        months = next((a for a in reversed(seq[:-1]) if a in ("m12", "m24")), None)
        recomputed = "cg" in seq[:-1]
        fkey = (months, recomputed, last)
        if fkey not in freshd:
            g = copy.deepcopy(proto)
            try:
                if months:
                    do_action(g, months)
                if recomputed:
                    do_action(g, "cg")
                freshd[fkey] = ("ok", do_action(g, last))
            except Exception as e:  # noqa: BLE001
                freshd[fkey] = ("exc", type(e).__name__)
        want = freshd[fkey]
        g = copy.deepcopy(proto)
        res["evals"] += 1
        got = None
        c1 = {"family": "objects", "seqs": [seq]}
        try:
            for a in seq:
                got = ("ok", do_action(g, a))
        except Exception as e:  # noqa: BLE001
            got = ("exc", type(e).__name__)
        if got != want:
            kinds = sorted({("hourly" if x.startswith("hour") else "size" if x == "size" else "hybrid") for x in seq[:-1]})
            res["violations"].append(core.viol("result_depends_on_earlier_calls", c1, observed=got, expected=want,
                                               msg=f"GHE call sequence {seq}: the last call gives {got}, on a fresh object {want}",
                                               last=("hourly" if last.startswith("hour") else "size" if last == "size" else "hybrid"), after=kinds,
                                               raises=(got[0] == "exc")))
        if len(seq) > 1:
            res["nontrivial"] += 1
    res.outcome("object_histories", len(case["seqs"]))
    res["sample"] = {"family": "objects", "seqs": case["seqs"][:3]}


def run_case(case):
    res = core.Result(evals=0)
    warnings.filterwarnings("ignore")
    fam = case["family"]
    if fam == "config":
        run_config_bfs(case, res)
    elif fam == "designs":
        run_designs(case, res)
    elif fam == "study":
        run_study(case, res)
    elif fam == "objects":
        run_objects(case, res)
    return res


def main(run: core.Run, only=None):
    quick = run.tier == "quick"
    six = ["fluid", "sim", "loads", "borehole", "geometry", "pipe"]
    if quick:
        cfgs = [{"family": "config", "pipe": p, "method": mth, "nvals": 2, "setters": six} for p in scenarios.PIPES for mth in scenarios.METHODS]
    else:
        cfgs = [{"family": "config", "pipe": p, "method": mth, "nvals": 2, "setters": six if (i % 4) else None}
                for i, (p, mth) in enumerate((p, mth) for p in scenarios.PIPES for mth in scenarios.METHODS)]
    run.drive(cfgs, family="config")
    seqs = [list(s) for n in (1, 2, 3) for s in itertools.product(OBJ_ACTIONS, repeat=n)]
    step = 8
    ocases = [{"family": "objects", "seqs": seqs[i:i + step]} for i in range(0, len(seqs), step)]
    one = [list(sq) for n in (1, 2, 3) for sq in itertools.product(("hybP", "hourP"), repeat=n)]
    ocases.append({"family": "objects", "proto": "one_curve", "seqs": one})
    sims = ("hyb65", "hyb80", "hour80")
    months = [["m24", a, "m12", b] for a in sims for b in sims] + [["m24", a, b] for a in sims for b in sims] + [["m24", "hour80", "m12", "hour80", "hour80"]]
    ocases += [{"family": "objects", "seqs": months[i:i + 5]} for i in range(0, len(months), 5)]
    lib = [["hyb80", "cg", "hyb80"], ["cg", "hyb80"], ["hyb120", "cg", "hyb65"], ["size", "cg", "hyb80"], ["hyb80", "cg", "size"], ["hyb65", "hyb120", "cg", "hyb120"]]
    ocases.append({"family": "objects", "proto": "library", "seqs": lib})
    run.drive(ocases, family="objects")
    hs = histories(3 if quick else 4)
    dcfgs = [{"method": "nearsquare", "pipe": "single"}, {"method": "rowwise", "pipe": "double_parallel", "flow": "system"}]
    if not quick:
        dcfgs += [{"method": "rectangle", "pipe": "coaxial"}, {"method": "birectangle", "pipe": "single", "flow": "system"}, {"method": "bizoned", "pipe": "double_series"},
                  {"method": "constrained", "pipe": "single"}]
    refres = run.drive([{"family": "designs", "cfg": cfg, "reference_only": True} for cfg in dcfgs], family="design-references")
    refs0 = {core.canon(cfg): r["ref"] for cfg, r in zip(dcfgs, refres)}
    cases = []
    for cfg in dcfgs:
        for h in hs:
            cases.append({"family": "designs", "cfg": cfg, "histories": [h], "ref": refs0.get(core.canon(cfg))})
    results = run.drive(cases, family="designs", fresh_process=True)
    studies = [{"family": "study", "cfg": cfg, "change": ch, "first_run": fr} for cfg in (dcfgs[:1] if quick else dcfgs[:3])
               for ch in (("borehole", "soil", "loads", "limits") if quick else tuple(CHANGES)) for fr in ((True,) if quick else (True, False))]
    # the geometry method itself changed between two designs (bi-zoned / polygon-constrained <-> near-square)
    studies += [{"family": "study", "cfg": {"method": a, "pipe": "single"}, "change": ch, "first_run": fr}
                for a, ch in ((("bizoned", "to_nearsquare"), ("nearsquare", "to_bizoned")) if quick else (("bizoned", "to_nearsquare"), ("constrained", "to_nearsquare"), ("nearsquare", "to_bizoned"), ("rectangle", "to_bizoned")))
                for fr in ((False,) if quick else (True, False))]
    run.drive(studies, family="input-change-studies", fresh_process=True, chunksize=1)
    # the reference signature must be the same in every process that computed it
    refs = {}
    for c, r in zip(cases, results):
        k = core.canon(c["cfg"])
        if r.get("ref") is not None:
            if k in refs and refs[k] != r["ref"]:
                run.violations.append(dict(core.viol("reference_differs_between_processes", c, msg=f"{c['cfg']}: the plain 'D F' design is not the same in two worker processes"), family="designs"))
            refs.setdefault(k, r["ref"])
    return run.finish(
        rule="config: breadth-first search of the 3^6 (quick) / 3^9 abstract setter states with the real setters as transitions (state hash = manager "
             "content); objects: every call sequence of length <= 3 over 5 GHE calls vs a fresh object; designs: every valid history of length "
             f"<= {3 if quick else 4} over {{D,F,Bh,X1,X2,R}} with real physics, every find_design compared bit for bit with the plain run; one "
             "evaluation = one setter transition, one call sequence or one find_design; non-trivial = BFS run, sequence longer than one call, history",
        bounds={"config_setters": len(SETTERS), "values_per_setter": 2, "object_sequence_length": 3, "design_history_length": 3 if quick else 4,
                "design_configurations": dcfgs, "histories_per_configuration": len(hs)},
        assumptions=["BLAS threads = 1 (set by ./check); bit identity is asserted under that setting", "set_design is called after the setters it "
                     "reads (API contract); set_pipe_type is given the type the pipe setter implies",
                     "time stamps and run time are removed from the output files before comparison"],
        traces_validated=len(cases),
        require_outcomes=("input_change_studies", "config_bfs", "object_histories", "design_histories"),
    )
