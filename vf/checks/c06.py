"""C06 - hybrid time-step loads conserve every month's ground energy.

Alphabet : month patterns (direction x peak day x peak shape x base) -> profiles
           P0 every month the same pattern; P1 one deviating month; P2 two adjacent deviating months; plus smooth
           office-like, mirrored, and constant profiles; horizons {12, 24, 37, 240} months.
Oracle   : closed-form monthly net energy of the input profile (own calendar), compared with the signed sum of
           load x breakpoint difference between consecutive month-end breakpoints of the real HybridLoad.
"""
from __future__ import annotations

from vf import core, hybrid, loadgen as LG


def init_worker():
    import ghedesigner.ground_loads as gl

    if not hasattr(gl, "HybridLoad"):
        raise core.HarnessError("seam missing: ghedesigner.ground_loads.HybridLoad")


def profile_of(case):
    k = case["profile"]
    if k == "patterns":
        return LG.build_profile(case["patterns"])
    if k == "office":
        return LG.atlanta_like(case.get("scale", 1.0))
    if k == "mirror":
        return [-x for x in LG.atlanta_like(case.get("scale", 1.0))]
    if k == "const":
        return [case["value"]] * 8760
    raise core.HarnessError(f"unknown profile {k}")


def check_one(case, res):
    loads = profile_of(case)
    ref = LG.monthly_reference(loads)
    annual_net = sum(r["rej_kwh"] - r["ext_kwh"] for r in ref)
    sm0 = case.get("start", 1)  # SimulationParameters.start_month (reachable through the GHE / design classes)
    handed = loads
    if case.get("as_array"):
        import numpy as np

        handed = np.array(loads, dtype=float)  # the caller's own float array, used for every build of this case
    builds = [(n, rep) for n in case["horizons"] for rep in range(2 if case.get("as_array") else 1)]
    for n_sim, rep in builds:
        n_months = sm0 - 1 + n_sim  # the tool's end_month
        res["evals"] += 1
        c1 = dict(case, horizons=[n_sim])
        try:
            hl = hybrid.make_hybrid(handed, n_sim, start_month=sm0, raw=True) if case.get("as_array") else hybrid.make_hybrid(loads, n_sim, start_month=sm0)
        except Exception as e:  # noqa: BLE001
            res["violations"].append(core.viol("hybrid_load_raised", c1, msg=f"HybridLoad raised {type(e).__name__}: {e}", exc=type(e).__name__))
            continue
        ends = LG.month_end_hours(n_months)
        try:
            en_, _pos = hybrid.month_energies(hl, n_months, ends, first=sm0 - 1)
        except LookupError as e:
            res["violations"].append(core.viol("no_month_end_breakpoint", c1, msg=f"no breakpoint at the end of simulated month {e.args[0]} (hour {ends[e.args[0] - 1]})", month=((e.args[0] - 1) % 12) + 1))
            continue
        en = [0.0] * (sm0 - 1) + list(en_)  # indexed by month counted from the start of the first year
        worst = None
        for m in range(sm0 - 1, n_months):
            r = ref[m % 12]
            want = r["rej_kwh"] - r["ext_kwh"]
            tol = 1e-6 * max(1.0, abs(want), r["peak_rej"], r["peak_ext"], r["rej_kwh"], r["ext_kwh"])
            if abs(en[m] - want) > tol and worst is None:
                worst = (m, en[m], want)
        if worst is not None:
            m, got, want = worst
            r = ref[m % 12]
            direction = "both" if r["peak_rej"] > 0 and r["peak_ext"] > 0 else "cooling_only" if r["peak_rej"] > 0 else "heating_only" if r["peak_ext"] > 0 else "none"
            same_day = r["day_rej"] == r["day_ext"]
            res["violations"].append(core.viol(
                "month_energy_not_conserved", c1, observed=got, expected=want,
                msg=f"simulated month {m + 1} (calendar month {(m % 12) + 1}, {direction}, peak days rej/ext {r['day_rej']}/{r['day_ext']}): "
                    f"hybrid sequence integrates to {got:.6f} kWh, hourly input sums to {want:.6f} kWh",
                direction=direction, same_day=same_day, first_day_heating_peak=(direction == "heating_only" and r["day_ext"] == 0),
                build=rep + 1, start_month=sm0,
                start_clamped=bool(m == 0 and ((r["peak_rej"] > 0 and r["day_rej"] == 0 and 13 - float(hl.monthly_peak_cl_duration[1]) / 2 < 0)
                                               or (r["peak_ext"] > 0 and r["day_ext"] == 0 and 13 - float(hl.monthly_peak_hl_duration[1]) / 2 < 0))),
                sim_month_1=(m == 0)))
        total = sum(en)
        want_total = sum((ref[m % 12]["rej_kwh"] - ref[m % 12]["ext_kwh"]) for m in range(sm0 - 1, n_months))
        if worst is None and abs(total - want_total) > 1e-6 * max(1.0, abs(want_total), abs(annual_net)):
            res["violations"].append(core.viol("total_energy_not_conserved", c1, observed=total, expected=want_total, msg=f"horizon total {total} vs {want_total}"))
        dirs = {("b" if r["peak_rej"] > 0 and r["peak_ext"] > 0 else "c" if r["peak_rej"] > 0 else "h" if r["peak_ext"] > 0 else "n") for r in ref}
        for d in dirs:
            res.outcome({"b": "months_both", "c": "months_cooling_only", "h": "months_heating_only", "n": "months_no_load"}[d])
    if case["profile"] == "patterns":
        res["nontrivial"] += 1


def leapify(loads):
    """8784-h profile of a leap year: 29 February repeats 28 February"""
    feb28 = LG.month_start_hour(1) + 24 * 27
    return loads[: feb28 + 24] + loads[feb28 : feb28 + 24] + loads[feb28 + 24 :]


def check_years(case, res):
    """a sequence of single-year load sets built one after the other in one process: non-leap, leap (8784 h), non-leap"""
    base = profile_of({k: v for k, v in case.items() if k != "years_sequence"})
    for k, year in enumerate(case["years_sequence"]):
        leap = year % 4 == 0
        loads = leapify(base) if leap else base
        dim = LG.DAYS_IN_MONTH_LEAP if leap else LG.DAYS_IN_MONTH
        ref = LG.monthly_reference(loads, dim)
        for n_months in case["horizons"]:
            res["evals"] += 1
            c1 = dict(case, years_sequence=case["years_sequence"][: k + 1], horizons=[n_months])
            try:
                hl = hybrid.make_hybrid(loads, n_months, years=[year])
            except Exception as e:  # noqa: BLE001
                res["violations"].append(core.viol("hybrid_load_raised", c1, msg=f"HybridLoad(years=[{year}]) raised {type(e).__name__}: {e}", exc=type(e).__name__))
                continue
            ends = LG.month_end_hours(n_months, dim)
            try:
                en, _ = hybrid.month_energies(hl, n_months, ends)
            except LookupError as e:
                res["violations"].append(core.viol("no_month_end_breakpoint", c1, msg=f"years=[{year}] after {case['years_sequence'][:k]}: no breakpoint at the end of simulated month {e.args[0]} (hour {ends[e.args[0] - 1]})",
                                                   month=((e.args[0] - 1) % 12) + 1, leap=leap))
                continue
            for m in range(n_months):
                r = ref[m % 12]
                want = r["rej_kwh"] - r["ext_kwh"]
                tol = 1e-6 * max(1.0, abs(want), r["peak_rej"], r["peak_ext"], r["rej_kwh"], r["ext_kwh"])
                if abs(en[m] - want) > tol:
                    res["violations"].append(core.viol("month_energy_not_conserved", c1, observed=en[m], expected=want,
                                                       msg=f"years=[{year}] after {case['years_sequence'][:k]}: simulated month {m + 1}: hybrid {en[m]:.6f} kWh, input {want:.6f} kWh",
                                                       direction="n/a", same_day=False, first_day_heating_peak=False, start_clamped=False, sim_month_1=(m == 0), leap=leap))
                    break
    res["nontrivial"] += 1
    res.outcome("year_sequences")


def check_multi(case, res):
    """several load years given at once (HybridLoad(years=[...]) / load_years of the GHE and design classes): every month of every year
    carries that year's energy"""
    years = case["years"]
    A = LG.pattern_alphabet()
    loads, refs, ends, acc = [], [], [], 0
    for k, y in enumerate(years):
        leap = y % 4 == 0
        dim = LG.DAYS_IN_MONTH_LEAP if leap else LG.DAYS_IN_MONTH
        base = LG.build_profile([dict(A[case["patterns"][k % len(case["patterns"])]], pc=6.0 * case["scales"][k], ph=5.0 * case["scales"][k])] * 12)
        yl = leapify(base) if leap else base
        loads += yl
        refs += LG.monthly_reference(yl, dim if leap else None)
        for mth in range(12):
            acc += 24 * dim[mth]
            ends.append(acc)
    n_months = case.get("months", 12 * len(years))  # a horizon that ends inside the last load year is allowed
    res["evals"] += 1
    try:
        if case.get("via_ghe"):
            # through a real exchanger object (GHE(..., load_years=[...])), as the design classes build it
            from vf import ghe_factory

            coords = [(0.0, 0.0), (0.0, 5.0), (5.0, 0.0), (5.0, 5.0)]
            g = ghe_factory.make_ghe(coords, H=97.5, loads=loads, months=n_months, load_years=list(years), gfunc=ghe_factory.table_gfunction(coords, 5.0, [60.0, 97.5, 135.0], 0.075))
            hl = g.hybrid_load
        else:
            hl = hybrid.make_hybrid(loads, n_months, years=list(years))
    except Exception as e:  # noqa: BLE001
        res["violations"].append(core.viol("hybrid_load_raised", case, msg=f"HybridLoad(years={years}) raised {type(e).__name__}: {e}", exc=type(e).__name__, multi_year=True))
        return
    try:
        en, _ = hybrid.month_energies(hl, n_months, ends[:n_months])
    except LookupError as e:
        res["violations"].append(core.viol("no_month_end_breakpoint", case, msg=f"years={years}: no breakpoint at the end of simulated month {e.args[0]} (hour {ends[e.args[0] - 1]})",
                                           month=((e.args[0] - 1) % 12) + 1, multi_year=True, has_leap=any(y % 4 == 0 for y in years)))
        return
    for m in range(n_months):
        r = refs[m]
        want = r["rej_kwh"] - r["ext_kwh"]
        tol = 1e-6 * max(1.0, abs(want), r["peak_rej"], r["peak_ext"], r["rej_kwh"], r["ext_kwh"])
        if abs(en[m] - want) > tol:
            res["violations"].append(core.viol("month_energy_not_conserved", case, observed=en[m], expected=want,
                                               msg=f"years={years}: simulated month {m + 1} (year {years[m // 12]}, month {(m % 12) + 1}): hybrid {en[m]:.6f} kWh, that year's hourly input {want:.6f} kWh",
                                               direction="n/a", same_day=False, first_day_heating_peak=False, start_clamped=False, sim_month_1=(m == 0), multi_year=True,
                                               has_leap=any(y % 4 == 0 for y in years), load_year=m // 12 + 1))
            break
    res.outcome("multi_year")
    res["nontrivial"] += 1
    res["sample"] = dict(case)


def expand(chunk):
    kind = chunk["kind"]
    hz = chunk["horizons"]
    A = LG.pattern_alphabet()
    if kind == "P0":
        for p in A[chunk["lo"]:chunk["hi"]]:
            yield {"profile": "patterns", "patterns": [p] * 12, "horizons": hz}
    elif kind == "P1":
        base = A[chunk["base"]]
        for p in A[chunk["lo"]:chunk["hi"]]:
            pats = [base] * 12
            pats[chunk["month"]] = p
            yield {"profile": "patterns", "patterns": pats, "horizons": hz}
    elif kind == "P2":
        B = LG.boundary_patterns()
        base = A[chunk["base"]]
        m1, m2 = chunk["months"]
        p1 = B[chunk["i"]]
        for p2 in B:
            pats = [base] * 12
            pats[m1] = p1
            pats[m2] = p2
            yield {"profile": "patterns", "patterns": pats, "horizons": hz}
    elif kind == "misc":
        yield {"profile": "office", "horizons": hz}
        yield {"profile": "mirror", "horizons": hz}
        yield {"profile": "office", "scale": 0.01, "horizons": hz}
        for v in (5000.0, -5000.0, 0.0):
            yield {"profile": "const", "value": v, "horizons": hz}


def run_case(case):
    res = core.Result(evals=0)
    if "years" in case and "scales" in case:
        check_multi(case, res)
        return res
    if "years_sequence" in case:
        check_years(case, res)
        res["sample"] = dict(case, patterns="...") if "patterns" in case else dict(case)
        return res
    if "profile" in case:
        check_one(case, res)
        return res
    for c in expand(case):
        check_one(c, res)
        if res["sample"] is None:
            res["sample"] = c
    return res


BASES = (1, 38, 70)  # indices into the pattern alphabet: cooling-only first-day spike, heating-only ..., both ...


def chunks(tier):
    A = LG.pattern_alphabet()
    nA = len(A)
    nB = len(LG.boundary_patterns())
    hz = [12, 37] if tier == "quick" else [12, 24, 37, 240]
    out = []
    step = 8
    for lo in range(0, nA, step):
        out.append(("P0", {"kind": "P0", "lo": lo, "hi": min(nA, lo + step), "horizons": hz}))
    months = (0, 1, 5, 11)
    bases = BASES[:1] if tier == "quick" else BASES
    hz1 = [13] if tier == "quick" else [12, 37]
    for b in bases:
        for m in months:
            for lo in range(0, nA, 16):
                out.append(("P1", {"kind": "P1", "base": b, "month": m, "lo": lo, "hi": min(nA, lo + 16), "horizons": hz1}))
    if tier == "thorough":
        for pair in ((11, 0), (0, 1), (5, 6)):
            for i in range(nB):
                out.append(("P2", {"kind": "P2", "base": BASES[0], "months": list(pair), "i": i, "horizons": [25]}))
    out.append(("misc", {"kind": "misc", "horizons": hz + ([] if tier == "quick" else [1, 2, 11, 13, 360])}))
    return out, nA, nB


def main(run: core.Run, only=None):
    chs, nA, nB = chunks(run.tier)
    fams = {}
    for fam, c in chs:
        fams.setdefault(fam, []).append(c)
    for fam, cs in fams.items():
        run.drive(cs, family=fam)
    A = LG.pattern_alphabet()
    ys = [{"profile": "patterns", "patterns": [A[i]] * 12, "years_sequence": seq, "horizons": [12, 25]} for i in (8, 45, 100) for seq in ([2019, 2020, 2019], [2020, 2019], [2021, 2024])]
    ys += [{"profile": "office", "years_sequence": [2019, 2020, 2019], "horizons": [12, 37]}]
    run.drive(ys, family="year-sequences")
    # simulations that start later in the year and run past December; loads handed over as the caller's own float array and used twice
    quick = run.tier == "quick"
    sel = (8, 45, 100) if quick else range(1, len(A), 11)
    st = [{"profile": "patterns", "patterns": [A[i]] * 12, "horizons": [12, 30], "start": sm} for i in sel for sm in (4, 10)]
    st += [{"profile": "office", "horizons": [9, 36], "start": sm} for sm in (2, 4, 12)]
    run.drive(st, family="start-month")
    ar = [{"profile": "patterns", "patterns": [A[i]] * 12, "horizons": [12, 25], "as_array": True} for i in sel] + [{"profile": "office", "horizons": [24], "as_array": True}]
    run.drive(ar, family="caller-array-used-twice")
    my = [{"years": ys, "scales": sc, "patterns": pt} for ys in ([2017, 2018, 2019], [2021, 2022], [2018, 2019, 2021, 2022]) for sc, pt in (([1.0, 1.3, 0.8, 1.1], [8, 45, 100]), ([0.7, 1.0, 1.6, 0.9], [70, 70, 38]))]
    my += [{"years": ys, "scales": [1.0, 1.3, 0.8], "patterns": [8, 45, 100]} for ys in ([2019, 2020, 2021], [2020, 2021])]
    my += [{"years": ys, "scales": [1.0, 1.4, 0.7], "patterns": [8, 45, 100], "months": mo, "via_ghe": True} for ys, mo in (([2021, 2022], 18), ([2021, 2022], 24), ([2017, 2018, 2019], 30))]
    run.drive(my, family="several-load-years")
    # nearly constant loads with the maximum held through the whole last / first day of the month (peak windows longer than a day)
    flat = [{"profile": "patterns", "patterns": [p] * 12, "horizons": [12, 25]} for p in (
        {"dir": "c", "cday": "last", "shape": "24h", "base": 0.95, "ch": 0, "pc": 6.0, "ph": 5.0}, {"dir": "h", "hday": "last", "shape": "24h", "base": 0.95, "hh": 0, "pc": 6.0, "ph": 5.0},
        {"dir": "c", "cday": "first", "shape": "24h", "base": 0.95, "ch": 0, "pc": 6.0, "ph": 5.0}, {"dir": "c", "cday": "last", "shape": "24h", "base": 0.8, "ch": 0, "pc": 6.0, "ph": 5.0})]
    run.drive(flat, family="day-long-peaks-on-nearly-constant-loads")
    # small plants: a direction whose monthly peak is below 100 W
    small = [{"profile": "patterns", "patterns": [dict(A[i], pc=pc, ph=ph)] * 12, "horizons": [12, 25]} for i in sel for pc, ph in ((0.06, 0.05), (6.0, 0.04), (0.09, 5.0))]
    run.drive(small, family="peaks-below-100-W")
    return run.finish(
        rule="profiles built from month patterns (direction x peak day {first,2nd,15th,last-1,last} x shape {1 h, 6 h, 30 h} x base "
             "{0, 20 %}); P0 = same pattern every month (whole alphabet), P1 = one deviating month in {Jan,Feb,Jun,Dec} over the "
             "whole alphabet, P2 (thorough) = two adjacent deviating months over the boundary patterns; one evaluation = one "
             "(profile, horizon) HybridLoad checked month by month; non-trivial = pattern-built profile",
        bounds={"pattern_alphabet": nA, "boundary_patterns": nB, "horizons": "see families", "deviating_months": [1, 2, 6, 12]},
        assumptions=["non-leap 8760-hour year (the only input GHEManager can pass); the year-sequences family also builds single leap years (8784 h) through HybridLoad directly",
                     "month energy = signed sum of load x breakpoint difference between month-end breakpoints, as the property words it",
                     "tolerance 1e-6 relative to max(1, |month energy|, monthly totals, peaks)"],
        require_outcomes=("months_both", "months_cooling_only", "months_heating_only", "months_no_load"),
    )
