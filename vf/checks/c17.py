"""C17 - input files written by the tool are schema-valid and round-trip.

Alphabet : geometry setter (6 methods, RowWise with and without perimeter ratio) x 3 numeric value sets x pipe setter (4) x
           fluid (5 names in upper/lower/mixed case, 0 / 30 %) x max_boreholes {absent, 12} x continue {absent, True} x flow type
           {borehole, system}; RowWise rotations over every multiple of 0.5 degree in [-90, 90].
Oracle   : validate_input_file(W1) == 0 and the independent section-by-section verdict accepts W1; W1 loaded through the REAL
           command-line loading path (_run_manager_from_cli_worker with find_design / prepare_results / write_output_files
           rebound to capture the manager) gives a manager whose write_input_file output W2 equals W1 byte for byte and whose
           configuration equals the original (1e-12 relative on floats).
"""
from __future__ import annotations

import io
import json
import shutil
import tempfile
from contextlib import redirect_stderr, redirect_stdout
from pathlib import Path

from vf import core, scenarios
from vf.oracles import schema as SCH

FLUIDS = [("Water", 0.0), ("water", 0.0), ("PROPYLENEGLYCOL", 30.0), ("EthyleneGlycol", 20.0), ("methylalcohol", 10.0), ("EthylAlcohol", 5.0)]
THIRD = 1.0 / 3.0

GEOS = {
    "nearsquare": [{"b": 5.0, "length": 40.0}, {"b": 0.1 + 0.2, "length": 100.0 * THIRD}, {"b": 6.096, "length": 155.0}],
    "rectangle": [{"length": 40.0, "width": 25.0, "b_min": 3.0, "b_max": 10.0}, {"length": 100 * THIRD, "width": 0.1 + 0.7, "b_min": THIRD, "b_max": 2 * THIRD + 0.1},
                  {"length": 36.5, "width": 85.0, "b_min": 3.0, "b_max": 10.0}],
    "birectangle": [{"length": 40.0, "width": 25.0, "b_min": 3.0, "b_max_x": 10.0, "b_max_y": 12.0},
                    {"length": 100 * THIRD, "width": 50 * THIRD, "b_min": 1 + THIRD, "b_max_x": 7.1, "b_max_y": 0.1 + 0.2 + 8},
                    {"length": 36.5, "width": 85.0, "b_min": 3.0, "b_max_x": 10.0, "b_max_y": 12.0}],
    "bizoned": [{"length": 40.0, "width": 25.0, "b_min": 3.0, "b_max_x": 10.0, "b_max_y": 12.0},
                {"length": 100 * THIRD, "width": 70 * THIRD, "b_min": 2 + THIRD, "b_max_x": 7.1, "b_max_y": 0.1 + 0.2 + 8},
                {"length": 85.0, "width": 36.5, "b_min": 3.0, "b_max_x": 10.0, "b_max_y": 12.0}],
    "constrained": [{}, {"b_min": 2 + THIRD, "b_max_x": 7.1, "b_max_y": 8.3, "property_boundary": [[0.1 + 0.2, 0.0], [40.0 * THIRD * 3, 0.0], [40.0, 25.0 + THIRD], [0.0, 25.0]],
                         "no_go_boundaries": []},
                    {"property_boundary": [[[0.0, 0.0], [20.0, 0.0], [20.0, 25.0], [0.0, 25.0]], [[22.0, 0.0], [40.0, 0.0], [40.0, 25.0], [22.0, 25.0]]],
                     "no_go_boundaries": [[[5.0, 5.0], [8.0, 5.0], [8.0, 9.0], [5.0, 9.0]], [[30.0, 5.0], [33.0, 5.0], [33.0, 9.0], [30.0, 9.0]]]}],
    # outlines as the API also accepts them: one flat polygon instead of a list of polygons, whole numbers as ints
    "constrained_flat": [{"property_boundary": [[0, 0], [40, 0], [40, 25], [0, 25]], "no_go_boundaries": [[8, 4], [14, 4], [14, 9], [8, 9]]},
                         {"property_boundary": [[0.0, 0.0], [40.0, 0.0], [40.0, 25.0], [0.0, 25.0]], "no_go_boundaries": [[8.0, 4.0], [14.0, 4.0], [14.0, 9.0], [8.0, 9.0]]},
                         {"property_boundary": [[[0, 0], [40, 0], [40, 25], [0, 25]]], "no_go_boundaries": [[30, 5], [33.5, 5], [33.5, 9], [30, 9]]}],
    "rowwise_ratio": [{"perimeter_spacing_ratio": 0.8}, {"perimeter_spacing_ratio": THIRD + 0.5, "max_spacing": 12 + THIRD, "min_spacing": 0.1 + 0.2 + 5, "spacing_step": 0.1,
                                                         "max_rotation": 33.3, "min_rotation": -77.7, "rotate_step": 0.7}, {"perimeter_spacing_ratio": 1.0, "min_rotation": -45.0, "max_rotation": 45.0}],
    "rowwise_none": [{"perimeter_spacing_ratio": None}, {"perimeter_spacing_ratio": None, "max_spacing": 12 + THIRD, "min_spacing": 0.1 + 0.2 + 5, "max_rotation": 90.0, "min_rotation": -90.0},
                     {"perimeter_spacing_ratio": None, "min_rotation": 0.0, "max_rotation": 60.0}],
}

_captured = {}


def init_worker():
    import ghedesigner.manager as mg

    for n in ("_run_manager_from_cli_worker", "GHEManager"):
        if not hasattr(mg, n):
            raise core.HarnessError(f"seam missing: ghedesigner.manager.{n}")


def build(cfg):
    method = cfg["method"].split("_")[0]
    m = scenarios.build_manager(method, pipe=cfg["pipe"], flow=cfg["flow"], flow_rate=cfg.get("flow_rate", 0.5), geo=cfg["geo"],
                                fluid=tuple(cfg["fluid"]), cap=cfg["cap"], cont=cfg["cont"], months=cfg.get("months", 24),
                                loads=cfg.get("loads") or [float((h * 37) % 101) - 50.0 for h in range(8760)],
                                soil=tuple(cfg.get("soil", (2.0, 2343493.0, 18.3))), grout=tuple(cfg.get("grout", (1.0, 3901000.0))),
                                distinct_pipe=bool(cfg.get("distinct_pipe")), **({"borehole": tuple(cfg["borehole"])} if cfg.get("borehole") else {}))
    return m


def load_through_cli(path: Path):
    """the real JSON -> setter-calls path, with the expensive tail rebound"""
    import ghedesigner.manager as mg

    saved = (mg.GHEManager.find_design, mg.GHEManager.prepare_results, mg.GHEManager.write_output_files)
    _captured.clear()

    def fd(self, throw=True):
        _captured["m"] = self
        return 0

    mg.GHEManager.find_design = fd
    mg.GHEManager.prepare_results = lambda self, *a, **k: None
    mg.GHEManager.write_output_files = lambda self, *a, **k: None
    try:
        with redirect_stdout(io.StringIO()), redirect_stderr(io.StringIO()):
            rc = mg._run_manager_from_cli_worker(path, path.parent / "out")
    finally:
        mg.GHEManager.find_design, mg.GHEManager.prepare_results, mg.GHEManager.write_output_files = saved
    return rc, _captured.get("m")


def snapshot(m):
    """configuration of a manager as plain data (what the design depends on)"""
    p = m._pipe
    sp = m._simulation_parameters
    return {
        "fluid": [m._fluid.fluid_type.name, m._fluid.concentration_percent, m._fluid.temperature, m._fluid.rho, m._fluid.cp, m._fluid.mu, m._fluid.k],
        "grout": [m._grout.k, m._grout.rhoCp], "soil": [m._soil.k, m._soil.rhoCp, m._soil.ugt],
        "pipe": [m.pipe_type.name, p.r_in, p.r_out, p.s, p.roughness, p.k, p.rhoCp, [list(x) for x in p.pos] if isinstance(p.pos, list) else list(p.pos), p.n_pipes],
        "borehole": [m._borehole.D, m._borehole.r_b],
        "sim": [sp.start_month, sp.end_month, sp.max_EFT_allowable, sp.min_EFT_allowable, sp.max_height, sp.min_height, sp.max_boreholes, sp.continue_if_design_unmet],
        "geo": {k: v for k, v in vars(m._geometric_constraints).items()},
        "geo_type": m._geometric_constraints.type.name,
        "design": [m._design.V_flow, m._design.flow_type.name, type(m._design).__name__],
        "loads": list(m._ground_loads),
    }


def close(a, b, path=""):
    """first difference between two snapshots beyond 1e-12 relative, or None"""
    if isinstance(a, dict) and isinstance(b, dict):
        if set(a) != set(b):
            return f"{path}: keys {sorted(set(a) ^ set(b))}"
        for k in a:
            d = close(a[k], b[k], f"{path}.{k}")
            if d:
                return d
        return None
    if isinstance(a, (list, tuple)) and isinstance(b, (list, tuple)):
        if len(a) != len(b):
            return f"{path}: length {len(a)} vs {len(b)}"
        for i, (x, y) in enumerate(zip(a, b)):
            d = close(x, y, f"{path}[{i}]")
            if d:
                return d
        return None
    if isinstance(a, bool) or isinstance(b, bool) or a is None or b is None or isinstance(a, str) or isinstance(b, str):
        return None if a == b else f"{path}: {a!r} vs {b!r}"
    if isinstance(a, (int, float)) and isinstance(b, (int, float)):
        return None if abs(a - b) <= 1e-12 * max(1.0, abs(a), abs(b)) else f"{path}: {a!r} vs {b!r}"
    return None if a == b else f"{path}: {a!r} vs {b!r}"


def check_config(cfg, res):
    res["evals"] += 1
    tmp = Path(tempfile.mkdtemp(prefix="vf-c17-"))
    try:
        def v(kind, msg, **attrs):
            res["violations"].append(core.viol(kind, cfg, msg=f"{cfg['method']}/{cfg['pipe']}/{cfg['fluid'][0]}: {msg}", method=cfg["method"], **attrs))

        try:
            m1 = build(cfg)
        except Exception as e:  # noqa: BLE001
            res.bump("api_rejected_configuration")
            return
        w1 = tmp / "w1.json"
        m1.write_input_file(w1)
        inst = json.loads(w1.read_text())
        verd = SCH.section_verdicts(inst)
        bad = [s for s, ok in verd.items() if not ok]
        import ghedesigner.validate as va

        with redirect_stderr(io.StringIO()):
            try:
                rc = va.validate_input_file(w1)
            except Exception as e:  # noqa: BLE001
                rc = f"raised {type(e).__name__}"
        if rc != 0 or bad:
            v("written_file_fails_validation", f"validate_input_file -> {rc}; sections failing their schema: {bad}", sections=bad,
              null_perimeter=(inst.get('geometric_constraints', {}).get('perimeter_spacing_ratio', 0) is None))
            return
        rc2, m2 = load_through_cli(w1)
        if rc2 != 0 or m2 is None:
            v("written_file_not_loadable", f"_run_manager_from_cli_worker returned {rc2} (manager captured: {m2 is not None})")
            return
        w2 = tmp / "w2.json"
        m2.write_input_file(w2)
        b1, b2 = w1.read_bytes(), w2.read_bytes()
        if b1 != b2:
            j1, j2 = json.loads(b1), json.loads(b2)
            diff = close(j1, j2, "file")
            v("rewritten_file_differs", f"writing the reloaded configuration gives a different file; first difference {diff}",
              where=(diff or "bytes only").split(":")[0])
        d = close(snapshot(m1), snapshot(m2), "cfg")
        if d:
            v("reloaded_configuration_differs", f"configuration after reload differs: {d}", where=d.split(":")[0].split("[")[0])
        res.outcome(cfg["method"])
        res["nontrivial"] += 1
    finally:
        shutil.rmtree(tmp, ignore_errors=True)


def expand(chunk):
    method = chunk["method"]
    for gi in chunk["geos"]:
        geo = GEOS[method][gi]
        for pipe in scenarios.PIPES:
            for fluid in chunk["fluids"]:
                for cap in (None, 12):
                    for cont in (False, True):
                        for flow in ("borehole", "system"):
                            yield {"method": method, "geo": geo, "pipe": pipe, "fluid": list(fluid), "cap": cap, "cont": cont, "flow": flow,
                                   "flow_rate": 0.5 if flow == "borehole" else 0.1 + 0.2 + 3}
                    # the same with a value set in which no two numbers coincide (pipe, borehole, soil, grout)
                    yield {"method": method, "geo": geo, "pipe": pipe, "fluid": list(fluid), "cap": 12, "cont": True, "flow": "system", "flow_rate": 0.1 + 0.2 + 3,
                           "distinct_pipe": True, "borehole": [97.3, 1.7, 0.13 + THIRD / 10], "soil": [2.2 + THIRD, 2343493.0 * THIRD * 3.3, 17.0 + THIRD], "grout": [1.0 + THIRD, 3901000.0 * 1.1]}


def run_same_design(case, res):
    """the written file, loaded through the command-line path, designs exactly like the API configuration it was written from"""
    from vf import physics

    cfg = dict(case["cfg"])
    cfg["loads"] = list(physics.loads("office"))
    tmp = Path(tempfile.mkdtemp(prefix="vf-c17-"))
    try:
        m1 = build(cfg)
        w1 = tmp / "w1.json"
        m1.write_input_file(w1)
        rc, m2 = load_through_cli(w1)
        res["evals"] += 1
        if rc != 0 or m2 is None:
            res["violations"].append(core.viol("written_file_not_loadable", case, msg=f"{cfg['method']}: loader returned {rc}", method=cfg["method"]))
            return
        e1, e2 = physics.find(m1), physics.find(m2)
        if (e1 is None) != (e2 is None) or (e1 is not None and type(e1) is not type(e2)):
            res["violations"].append(core.viol("reloaded_design_differs", case, msg=f"{cfg['method']}/{cfg['pipe']}: API configuration ends with {e1!r}, the written file with {e2!r}", method=cfg["method"], how="outcome"))
        elif e1 is None:
            s1, s2 = physics.signature(m1), physics.signature(m2)
            if s1 != s2:
                diff = [k for k in s1 if s1[k] != s2[k]]
                res["violations"].append(core.viol("reloaded_design_differs", case, msg=f"{cfg['method']}/{cfg['pipe']}: the design from the written file differs from the API configuration's in {diff} "
                                                                                        f"(H {float.fromhex(s2['H'])} vs {float.fromhex(s1['H'])}, nbh {s2['nbh']} vs {s1['nbh']})", method=cfg["method"], how=diff[0]))
        res.outcome("same_design_runs")
        res["nontrivial"] += 1
        res["sample"] = {"same_design": True, "cfg": {k: v for k, v in case["cfg"].items()}}
    finally:
        shutil.rmtree(tmp, ignore_errors=True)


def run_case(case):
    res = core.Result(evals=0)
    if case.get("same_design"):
        run_same_design(case, res)
        return res
    if "pipe" in case:
        check_config(case, res)
        return res
    if case.get("kind") == "rotations":
        for k in range(case["lo"], case["hi"]):
            mn = -90.0 + 0.5 * k
            for mx in sorted({min(90.0, mn + 0.5), 90.0, min(90.0, mn + 33.5)}):
                if mx <= mn:
                    continue
                for ratio in (None, 0.8):
                    cfg = {"method": "rowwise_none" if ratio is None else "rowwise_ratio",
                           "geo": {"perimeter_spacing_ratio": ratio, "min_rotation": mn, "max_rotation": mx}, "pipe": "single",
                           "fluid": ["Water", 0.0], "cap": None, "cont": False, "flow": "borehole"}
                    check_config(cfg, res)
        res["sample"] = {"kind": "rotations", "min_rotation_deg": [-90.0 + 0.5 * case["lo"], -90.0 + 0.5 * (case["hi"] - 1)]}
        return res
    for cfg in expand(case):
        check_config(cfg, res)
        if res["sample"] is None:
            res["sample"] = {k: v for k, v in cfg.items()}
    return res


def main(run: core.Run, only=None):
    quick = run.tier == "quick"
    fluids = FLUIDS[1:3] if quick else FLUIDS
    cases = []
    for method in GEOS:
        for gi in range(3):
            if quick and gi == 2:
                continue
            cases.append({"method": method, "geos": [gi], "fluids": fluids})
    run.drive(cases, family="configurations")
    # every fluid name (in three spellings) at a low and at the schema's highest concentration, and the schema's boundary values the API
    # accepts: boreholes that start at the surface, a one-month horizon
    extra = []
    for name in ("Water", "PropyleneGlycol", "ETHYLENEGLYCOL", "methylalcohol", "EthylAlcohol", "METHYLALCOHOL", "ethylalcohol", "propyleneglycol"):
        for conc in ((0.0,) if name.lower() == "water" else (10.0, 60.0 if "GLYCOL" in name.upper() else 40.0)):
            extra.append({"method": "nearsquare", "geo": GEOS["nearsquare"][0], "pipe": "single", "fluid": [name, conc], "cap": None, "cont": False, "flow": "borehole"})
    for pipe in scenarios.PIPES:
        extra.append({"method": "rectangle", "geo": GEOS["rectangle"][0], "pipe": pipe, "fluid": ["Water", 0.0], "cap": None, "cont": False, "flow": "borehole", "borehole": [96.0, 0.0, 0.15]})
        extra.append({"method": "nearsquare", "geo": GEOS["nearsquare"][0], "pipe": pipe, "fluid": ["Water", 0.0], "cap": 12, "cont": True, "flow": "system", "flow_rate": 2.0, "months": 1})
    run.drive(extra, family="fluids-and-boundary-values")
    step = 10
    rot = [{"kind": "rotations", "lo": lo, "hi": min(361, lo + step)} for lo in range(0, 361, step)]
    run.drive(rot[::3] if quick else rot, family="rowwise-rotations")
    sd = [{"method": "nearsquare", "geo": GEOS["nearsquare"][0], "pipe": "single", "fluid": ["Water", 0.0], "cap": None, "cont": False, "flow": "borehole", "flow_rate": 0.3},
          {"method": "rowwise_none", "geo": {"perimeter_spacing_ratio": None, "min_rotation": -90.0 + 0.5 * 77, "max_rotation": 0.0}, "pipe": "coaxial", "fluid": ["PROPYLENEGLYCOL", 30.0], "cap": 12, "cont": True, "flow": "system", "flow_rate": 0.1 + 0.2 + 3, "distinct_pipe": True}]
    if not quick:
        sd += [{"method": "rectangle", "geo": GEOS["rectangle"][0], "pipe": "double_series", "fluid": ["water", 0.0], "cap": 12, "cont": True, "flow": "borehole", "flow_rate": 0.3},
               {"method": "birectangle", "geo": GEOS["birectangle"][0], "pipe": "single", "fluid": ["Water", 0.0], "cap": None, "cont": False, "flow": "system", "flow_rate": 4.0},
               {"method": "bizoned", "geo": GEOS["bizoned"][0], "pipe": "double_parallel", "fluid": ["EthyleneGlycol", 20.0], "cap": None, "cont": True, "flow": "borehole", "flow_rate": 0.3},
               {"method": "constrained_flat", "geo": GEOS["constrained_flat"][0], "pipe": "single", "fluid": ["Water", 0.0], "cap": None, "cont": False, "flow": "borehole", "flow_rate": 0.3},
               {"method": "rowwise_ratio", "geo": GEOS["rowwise_ratio"][0], "pipe": "single", "fluid": ["Water", 0.0], "cap": None, "cont": False, "flow": "borehole", "flow_rate": 0.3}]
    run.drive([{"same_design": True, "cfg": c} for c in sd], family="same-design")
    return run.finish(
        rule="complete product geometry method x value set x pipe x fluid x max_boreholes x continue x flow type, plus RowWise rotation "
             "windows on the 0.5 degree grid; one evaluation = one configuration written, validated, reloaded through the real "
             "command-line loader and written again; non-trivial = every configuration that reached the round trip",
        bounds={"methods": list(GEOS), "value_sets": 2 if quick else 3, "fluids": [f[0] for f in fluids], "rotation_grid_deg": 0.5},
        assumptions=["the nominal borehole height is not part of the configuration (the loader sets it to max_height; C13 checks "
                     "that it does not matter)", "family same-design runs the real design for the API configuration and for the manager rebuilt from its written file: bit-identical signature"],
        require_outcomes=tuple(GEOS),
    )
