"""Shared driver of the engine-A checks (C01, C02, C05, C12): same exploration, one oracle each."""
from __future__ import annotations

from vf import core, explore_search as X

LOTS = [
    {"length": 40.0, "width": 25.0, "b_min": 3.0, "b_max": 10.0, "b_max_x": 10.0, "b_max_y": 12.0, "b": 5.0},
    {"length": 25.0, "width": 40.0, "b_min": 3.0, "b_max": 10.0, "b_max_x": 10.0, "b_max_y": 12.0, "b": 3.3},
    {"length": 30.0, "width": 30.0, "b_min": 2.5, "b_max": 7.5, "b_max_x": 7.5, "b_max_y": 6.1, "b": 6.0},
    {"length": 85.0, "width": 36.5, "b_min": 5.0, "b_max": 12.5, "b_max_x": 12.5, "b_max_y": 10.0, "b": 7.0},
    {"length": 20.0, "width": 64.1, "b_min": 3.3, "b_max": 6.1, "b_max_x": 6.1, "b_max_y": 10.0, "b": 2.0},
    {"length": 50.0, "width": 50.0, "b_min": 5.0, "b_max": 10.0, "b_max_x": 10.0, "b_max_y": 10.0, "b": 10.0},
]


def chunks(tier):
    full = tier == "thorough"
    out = []
    nmax1 = 64 if full else 24
    for method in ("nearsquare", "rectangle"):
        for n in range(1, nmax1 + 1):
            out.append(("A1", {"fam": "A1", "method": method, "n": n, "full": full and n <= 32,
                               "flow": "system" if method == "rectangle" else "borehole"}))
    for n in range(1, (10 if full else 8) + 1):
        out.append(("A2", {"fam": "A2", "method": "nearsquare", "n": n}))
    for method in ("nearsquare", "rectangle"):
        for n in range(1, (25 if full else 13)):
            out.append(("A1E", {"fam": "A1E", "method": method, "n": n}))
    for method in ("nearsquare", "rectangle"):
        for n in range(1, (13 if full else 7)):
            out.append(("A1Z", {"fam": "A1Z", "method": method, "n": n, "flow": "system" if n % 2 else "borehole"}))
    for method in ("nearsquare", "rectangle", "bizoned", "birectangle"):
        for n in (1, 2, 3, 5, 8) if not full else range(1, 17):
            if KINDS_1D(method):
                out.append(("A1R", {"fam": "A1R", "method": method, "n": n}))
    for method in ("nearsquare", "bizoned") if not full else ("nearsquare", "rectangle", "bizoned", "birectangle"):
        for n in range(1, (7 if full else 5)):
            if KINDS_1D(method):
                out.append(("A7", {"fam": "A7", "method": method, "n": n}))
    for n in range(1, 6):
        out.append(("A3", {"fam": "A3", "method": "rectangle", "n": n}))
    for method in ("birectangle", "bizoned", "constrained"):
        for K in (1, 2, 3):
            for M in ((2, 3, 4, 5) if full else (2, 3, 4)):
                if M < K + 1:
                    continue  # real nested lists always have a first list longer than the number of lists (see DESIGN.md)
                for wv in ((0, 1) if full else (0,)):
                    out.append(("A4", {"fam": "A4", "method": method, "K": K, "M": M, "full": full, "wv": wv}))
    sides = [10.0, 12.5, 17.3, 20.0, 25.0, 30.0, 33.3, 36.5, 40.0, 50.0, 64.1, 85.0, 100.0]
    for method in ("rectangle", "birectangle", "bizoned", "nearsquare"):
        for i in range(0, len(sides), 3 if not full else 1):
            out.append(("A8", {"fam": "A8", "method": method, "sides": sides[i:i + 1], "sides2": sides if full else sides[::2], "cont": i % 2 == 1}))
    lots = LOTS if full else LOTS[:2]
    for method in ("nearsquare", "rectangle", "birectangle", "bizoned", "constrained"):
        for i, lot in enumerate(lots):
            if method == "constrained":
                geo = None if i == 0 else {"b_min": lot["b_min"], "b_max_x": lot["b_max_x"], "b_max_y": lot["b_max_y"],
                                           "property_boundary": [[0, 0], [lot["length"], 0], [lot["length"], lot["width"]],
                                                                 [0.4 * lot["length"], lot["width"]],
                                                                 [0.4 * lot["length"], 0.6 * lot["width"]], [0, 0.6 * lot["width"]]],
                                           "no_go_boundaries": [[[0.5 * lot["length"], 0.2 * lot["width"]],
                                                                 [0.7 * lot["length"], 0.2 * lot["width"]],
                                                                 [0.7 * lot["length"], 0.4 * lot["width"]],
                                                                 [0.5 * lot["length"], 0.4 * lot["width"]]]]}
            elif method == "nearsquare":
                geo = {"b": lot["b"], "length": lot["length"]}
            elif method == "rectangle":
                geo = {k: lot[k] for k in ("length", "width", "b_min", "b_max")}
            else:
                geo = {k: lot[k] for k in ("length", "width", "b_min", "b_max_x", "b_max_y")}
            for wv in ((0, 1) if full else (0,)):
                out.append(("A5", {"fam": "A5", "method": method, "geo": geo, "full": full, "wv": wv,
                                   "flow": "system" if i % 2 else "borehole", "load_years": [2019, 2020, 2021] if (i + wv) % 2 == 0 else None}))
    # polygon-constrained lots without no-go zones whose sides are oblique to the candidate grid (the clipped borehole counts of growing
    # grids are then not monotone before the lists are ordered)
    for k, pb in enumerate(([[30.0, 0.0], [60.0, 25.0], [30.0, 50.0], [0.0, 25.0]], [[0.0, 10.0], [45.0, 0.0], [60.0, 35.0], [20.0, 50.0]])):
        if not full and k:
            continue
        for wv in ((0, 1) if full else (0,)):
            out.append(("A5", {"fam": "A5", "method": "constrained", "geo": {"b_min": 8.0, "b_max_x": 20.0, "b_max_y": 20.0, "property_boundary": pb, "no_go_boundaries": []},
                               "full": full, "wv": wv, "flow": "borehole", "load_years": None}))
    rw_lots = [
        ({"property_boundary": [[2.0, 3.0], [42.0, 3.0], [42.0, 28.0], [2.0, 28.0]], "no_go_boundaries": [],
          "min_spacing": 5.0, "max_spacing": 12.0, "spacing_step": 0.5, "min_rotation": -90.0, "max_rotation": 0.0,
          "rotate_step": 30.0, "perimeter_spacing_ratio": None}, 54),
        ({"property_boundary": [[2.0, 3.0], [42.0, 3.0], [42.0, 28.0], [2.0, 28.0]], "no_go_boundaries": [],
          "min_spacing": 5.0, "max_spacing": 12.0, "spacing_step": 0.5, "min_rotation": -90.0, "max_rotation": 0.0,
          "rotate_step": 30.0, "perimeter_spacing_ratio": 0.8}, 60),
        ({"property_boundary": [[5.0, 5.0], [35.0, 2.0], [45.0, 20.0], [25.0, 32.0], [4.0, 22.0]], "no_go_boundaries": [],
          "min_spacing": 6.0, "max_spacing": 14.0, "spacing_step": 1.0, "min_rotation": -60.0, "max_rotation": 60.0,
          "rotate_step": 20.0, "perimeter_spacing_ratio": None}, 40),
    ]
    for geo, nmax in (rw_lots if full else rw_lots[:2]):
        step = 4
        for c0 in range(1, nmax + 2, step):
            out.append(("A6", {"fam": "A6", "method": "rowwise", "geo": geo, "nmax": nmax, "c0": c0, "cn": step,
                               "flow": "system" if c0 % 2 == 0 else "borehole", "load_years": [2019, 2020] if c0 % 3 == 0 else None}))
    return out


def KINDS_1D(method):
    return method in ("nearsquare", "rectangle")


PROPS = ()


def init_worker(*props):
    global PROPS
    PROPS = props[:1]
    if len(props) > 1 and props[1] == "B":
        return  # engine B workers keep the real physics; the replay installs and removes the seams itself
    X.init_worker()


def run_case(case):
    if case.get("engine") == "R":
        from vf import report_runs, worlds

        worlds.uninstall()
        X._MGR.clear()
        return report_runs.run_case(case)
    if case.get("engine") == "S":
        from vf import hourly_size, worlds

        worlds.uninstall()
        return hourly_size.run_case(case)
    if case.get("engine") == "F":
        from vf import file_runs, worlds

        worlds.uninstall()
        X._MGR.clear()
        return file_runs.run_file_case(case)
    if case.get("engine") == "B":
        from vf import explore_physics as EP, worlds

        worlds.uninstall()  # a replay process may have installed the fake-physics seams: the real run needs the real physics
        X._MGR.clear()
        EP.init_worker()
        return EP.run_chunk(case, PROPS)
    return X.run_chunk(case, PROPS)


def main_for(prop, run: core.Run, rule_extra: str, require=(), only=None):
    import importlib

    modname = f"vf.checks.{prop.lower()}"
    fams = {}
    for fam, ch in chunks(run.tier):
        fams.setdefault(fam, []).append(ch)
    for fam, chs in fams.items():
        if only and fam not in only:
            run.cap(f"family {fam} skipped by --only (debug run)")
            continue
        run.drive(chs, family=fam, init_args=(prop,))
    if not only or "B" in only:
        from vf import explore_physics as EP

        bcases = [dict(c, engine="B") for c in EP.product(run.tier, prop)]
        bres = run.drive(bcases, family="B", init_args=(prop, "B"))
        validated = sum(r["stats"].get("traces_validated", 0) for r in bres)
    else:
        validated = 0
    if prop == "C02" and (not only or "F" in only):
        # designs run from an input file through the command-line worker, names in the file in other letter cases
        fcases = [{"engine": "F", "method": mth, "cap": 10, "cont": True, "load": "too_large", "casing": how}
                  for mth, how in ((("nearsquare", "lower"), ("rectangle", "capital")) if run.tier == "quick" else
                                   [(mth, how) for mth in ("nearsquare", "rectangle", "birectangle", "bizoned") for how in ("upper", "lower", "capital", "mixed")])]
        # ... and runs that cannot meet the limits and were not asked to continue: they end with a ValueError, nothing else
        fcases += [{"engine": "F", "method": mth, "cap": None, "cont": False, "load": "too_large", "casing": "upper"} for mth in (("nearsquare",) if run.tier == "quick" else ("nearsquare", "rectangle", "bizoned", "rowwise"))]
        # a cap given as a float (the schema says "number"; 10.0 from a file or from the API)
        fcases += [{"engine": "F", "method": mth, "cap": 10.0, "cont": True, "load": "too_large", "casing": "upper"} for mth in (("nearsquare",) if run.tier == "quick" else ("nearsquare", "rectangle", "birectangle"))]
        # a failed run, then a larger lot on the same manager, the cap set once before the first run
        fcases += [{"engine": "F", "kind": "history", "method": mth, "cap": 30, "load": "heavy",
                    "geo_small": {"length": 20.0, "width": 15.0, "b_min": 3.0, "b_max_x": 10.0, "b_max_y": 12.0} if mth != "rectangle" else {"length": 20.0, "width": 15.0, "b_min": 3.0, "b_max": 10.0},
                    "geo_large": {"length": 60.0, "width": 40.0, "b_min": 3.0, "b_max_x": 10.0, "b_max_y": 12.0} if mth != "rectangle" else {"length": 60.0, "width": 40.0, "b_min": 3.0, "b_max": 10.0}}
                   for mth in (("birectangle",) if run.tier == "quick" else ("birectangle", "bizoned", "rectangle"))]
        run.drive(fcases, family="F", init_args=(prop, "B"), chunksize=1)
    if prop == "C12" and (not only or "R" in only):
        rcases = [{"engine": "R", "kind": k, "method": mth, "load": ld} for k in ("setter_after_design", "report_read_after_next_design")
                  for mth, ld in ((("nearsquare", "office"),) if run.tier == "quick" else (("nearsquare", "office"), ("rectangle", "mirror"), ("bizoned", "office"), ("rowwise", "balanced")))]
        rcases += [{"engine": "R", "kind": "plain_report", "method": mth, "load": "office", "limits": [32.22222222222222, 4.444444444444445]} for mth in (("nearsquare",) if run.tier == "quick" else ("nearsquare", "rowwise", "bizoned"))]
        run.drive(rcases, family="R", init_args=(prop, "B"), chunksize=1)
    if prop == "C02" and (not only or "S" in only):
        # sizing one real exchanger whose long-time table reaches beyond the allowed height window, loads far too large / far too small:
        # the height that comes back stays inside [min_height, max_height]
        scases = [{"engine": "S", "method": "hybrid", "N": n, "scale": sc, "mirror": mir, "heights": hts} for n, mir in ((4, False), (1, True))
                  for sc in (0.002, 3.0) for hts in ([48.0, 96.0, 192.0], [30.0, 60.0, 135.0, 270.0])]
        run.drive(scases, family="S", init_args=(prop, "B"), chunksize=1)
    if prop == "C05" and (not only or "S" in only):
        # sizing one real exchanger with the hourly and with the hybrid time step: the height is a root of the excess of THAT method
        scases = [{"engine": "S", "method": mth, "N": n, "scale": sc, "mirror": mir} for mth in ("hourly", "hybrid")
                  for n, sc, mir in (((4, 0.2, False), (1, 0.045, True)) if run.tier == "quick" else ((4, 0.2, False), (1, 0.045, True), (4, 0.28, True), (9, 0.5, False), (4, 0.02, False), (2, 0.6, False)))]
        run.drive(scases, family="S", init_args=(prop, "B"), chunksize=1)
    rule = (
        "one evaluation = one complete GHEManager.find_design() of the real search code over a fake-physics world "
        "(families A1 monotone thresholds (A1Z: a temperature limit of exactly 0), A7 reconfiguration histories on one manager, A8 narrow / empty spacing windows on a lot lattice, A1R excess rising with height, A1E a candidate missing / meeting the limit by 0.05 mK, A2 sign patterns, A3 sign x rank, A4 nested lists, A5 real candidate lists and A6 the real RowWise "
        "generator, both with a drilling-length world); every world of each family within the bound is enumerated; non-trivial = the search "
        "evaluated at least 3 candidates at max height; states/transitions = abstract search states "
        "(method, list shape, set of answered (candidate, height class, sign)) and simulate() steps between them. "
        + rule_extra
    )
    return run.finish(
        rule=rule,
        bounds={"A1_list_length": 64 if run.tier == "thorough" else 24, "A2_patterns_n": 10 if run.tier == "thorough" else 8,
                "A3_n": 5, "A4_lists_x_candidates": "3x5" if run.tier == "thorough" else "3x4",
                "B_real_runs": len(bcases) if (not only or "B" in only) else 0, "A5_lots": 6 if run.tier == "thorough" else 2, "A6_rowwise_lots": 3 if run.tier == "thorough" else 2, "height_window": [X.HMIN, X.HMAX]},
        assumptions=[
            "worlds: excess strictly decreasing in height (linear or hyperbolic) with one root per field; never exactly 0 at a bound",
            "the physics is replaced below search_routines.GHE.simulate / calc_g_func_for_multiple_lengths; everything "
            "above (search classes, GHE.__init__/cost/size, solve_root, brentq, GHEManager.find_design) is the real code",
            "cap=1 (no candidate with fewer boreholes than the cap) is treated as degenerate input and not explored",
            "family B: real pygfunction physics on a 40 x 25 m lot, 24 / 37 month horizons; each real run's query trace is replayed through the "
            "world seam (table world) and must give the identical query sequence, selection and height (traces_validated_against_impl)",
        ],
        traces_validated=validated,
        require_outcomes=require,
    )
